"""Harness-side helpers for the waveform timing simulator: stimuli on a dyadic grid, waveform decoding,
static timing windows, reference transition counting.  Independent of kyupy.wave_sim's code."""
import numpy as np

from . import graph

TMAX = np.float32(2 ** 127)
TMAX_OVL = np.float32(1.1 * 2 ** 127)
TMIN = np.float32(-2 ** 127)


# ------------------------------------------------------------------------------------------------
# stimuli

def gen_stim(rng, srcs, sims, multi=True, tmax_k=1 << 10, p_static=0.25):
    """-> {src: [ (init, [t1 < t2 < ...]) per lane ]}; times on the grid k/4.
    The input slot has capacity 4: at most 3 entries before the terminator (TMIN counts as one)."""
    stim = {}
    for s in srcs:
        lanes = []
        for _ in range(sims):
            init = rng.getrandbits(1)
            if rng.random() < p_static:
                nt = 0
            elif multi:
                nt = rng.choice([1, 1, 1, 2, 3])
            else:
                nt = 1
            nt = min(nt, 3 - init)
            ts = sorted(rng.sample(range(tmax_k), nt))
            lanes.append((init, [k / 4 for k in ts]))
        stim[s] = lanes
    return stim


def stim_init(stim, s, sims):
    return sum(1 << i for i in range(sims) if stim[s][i][0])


def stim_final(stim, s, sims):
    return sum(1 << i for i in range(sims) if stim[s][i][0] ^ (len(stim[s][i][1]) & 1))


def apply_stim(sim, b, stim, shift=0.0, scale=1.0):
    """Write the stimulus through s[0..2] and (for multi-transition sources) directly into the input slots.
    Calls sim.s_to_c()."""
    sims = sim.sims
    for row, (kind, name) in enumerate(b.s_order):
        if kind == 'out':
            continue
        for lane in range(sims):
            init, ts = stim[name][lane]
            sim.s[0, row, lane] = init
            sim.s[1, row, lane] = (ts[0] * scale + shift) if ts else 0.0
            sim.s[2, row, lane] = init ^ (len(ts) & 1)
    sim.s_to_c()
    for row, (kind, name) in enumerate(b.s_order):
        if kind == 'out':
            continue
        loc = int(sim.c_locs[sim.ppi_offset + row])
        if loc < 0:
            continue
        for lane in range(sims):
            init, ts = stim[name][lane]
            if len(ts) < 2:
                continue
            ent = ([TMIN] if init else []) + [np.float32(t * scale + shift) for t in ts] + [TMAX]
            assert len(ent) <= 4
            for k, v in enumerate(ent):
                sim.c[loc + k, lane] = v


# ------------------------------------------------------------------------------------------------
# decoding

def decode(c, loc, cap, lane):
    """-> (init, [finite times], terminator, n_entries) for the waveform stored at rows loc..loc+cap-1"""
    init = 0
    times = []
    term = None
    k = 0
    for k in range(cap):
        t = c[loc + k, lane]
        if t >= TMAX:
            term = t
            break
        if t <= TMIN:
            init ^= 1 if k == 0 else 0
            if k != 0:
                times.append(float(t))    # a TMIN that is not first is malformed; keep it visible
            continue
        times.append(float(t))
    return init, times, term, k


def decode_col(col):
    """same as decode() for a 1-D array of one waveform's rows"""
    init = 0
    times = []
    term = None
    for k, t in enumerate(col):
        if t >= TMAX:
            term = t
            break
        if t <= TMIN and k == 0:
            init = 1
            continue
        times.append(float(t))
    return init, times, term


def count_rf(init, ntrans):
    """rises, falls of a waveform with `ntrans` transitions starting at value init"""
    if init:
        falls = (ntrans + 1) // 2
        rises = ntrans // 2
    else:
        rises = (ntrans + 1) // 2
        falls = ntrans // 2
    return rises, falls


# ------------------------------------------------------------------------------------------------
# structure: which lines feed which line, as the netlist states it

def line_deps(c, strip_forks=False, s_nodes=None):
    """-> (order, deps): order = line indices in evaluation order; deps[line] = ('src', s_row, inverted) for lines
    driven by a source (port / state element), ('alias', stem_line) for stripped fork branches, or
    ('op', [operand line indices]) for lines computed from the driver node's connected input lines."""
    s_nodes = s_nodes if s_nodes is not None else list(c.s_nodes)
    srow = {id(n): i for i, n in enumerate(s_nodes)}
    order, deps = [], {}
    for n in graph.topo_nodes(c):
        outs = [(p, l) for p, l in enumerate(n.outs) if l is not None]
        if not outs:
            continue
        driven = len(n.ins) > 0 and n.ins[0] is not None
        if graph.is_state(n) or (id(n) in srow and not driven):
            if id(n) not in srow:
                raise AssertionError('state element missing from s_nodes')
            for p, l in outs:
                deps[l.index] = ('src', srow[id(n)], bool('dff' in n.kind.lower() and p == 1))
                order.append(l.index)
            continue
        if n.kind == '__fork__':
            src = n.ins[0] if driven else None
            for p, l in outs:
                if src is None and strip_forks and id(n) not in srow:
                    deps[l.index] = ('zero',)             # stripped undriven fork: its branches are the constant-0 slot
                elif src is None:
                    deps[l.index] = ('op', [])            # undriven fork: constant 0
                elif strip_forks and id(n) not in srow:
                    d = deps.get(src.index)
                    if d and d[0] == 'zero':
                        deps[l.index] = ('zero',)
                    else:
                        deps[l.index] = ('alias', d[1] if d and d[0] == 'alias' else src.index)
                else:
                    deps[l.index] = ('op', [src.index])
                order.append(l.index)
            continue
        p, l = outs[0]
        if p == 0:
            deps[l.index] = ('op', [x.index for x in (list(n.ins) + [None] * 4)[:4] if x is not None])
            order.append(l.index)
    return order, deps


def sta_windows(c, deps_order, delays, stim, b, sims):
    """earliest / latest possible transition time per line and lane (np arrays (nlines, sims); +inf/-inf = no transition)."""
    order, deps = deps_order
    nl = len(c.lines)
    ear = np.full((nl, sims), np.inf)
    lat = np.full((nl, sims), -np.inf)
    dmin = delays.reshape(delays.shape[0], -1).min(axis=1)
    dmax = delays.reshape(delays.shape[0], -1).max(axis=1)
    for li in order:
        d = deps[li]
        if d[0] == 'src':
            kind, name = b.s_order[d[1]]
            for lane in range(sims):
                ts = stim[name][lane][1]
                if ts:
                    ear[li, lane] = ts[0]
                    lat[li, lane] = ts[-1]
        elif d[0] == 'zero':
            pass
        elif d[0] == 'alias':
            ear[li] = ear[d[1]]
            lat[li] = lat[d[1]]
        else:
            for x in d[1]:
                ear[li] = np.minimum(ear[li], ear[x] + dmin[x])
                lat[li] = np.maximum(lat[li], lat[x] + dmax[x])
    return ear, lat


def gen_delays(nrng, nlines, ndatasets=1, kmax=64, polarity_independent=False, dtype=np.float32, zero_frac=0.15):
    d = nrng.integers(0, kmax, size=(ndatasets, nlines, 2, 2)).astype(np.float64) / 4
    z = nrng.random(size=(ndatasets, nlines)) < zero_frac
    d[z] = 0
    if polarity_independent:
        d[:] = d[:, :, :1, :1]
    return d.astype(dtype)


def live_mask(sim, c):
    """Boolean array like `c`: True for the entries that belong to a waveform - from the start of every mapped slot up to and including its
    terminator (first entry >= TMAX), per lane.  Rows beyond c_len (padding of a buffer), entries behind a terminator and rows no slot maps
    are not part of any waveform; their content is unspecified."""
    c = np.asarray(c)
    mask = np.zeros(c.shape, dtype=bool)
    locs, caps = np.asarray(sim.c_locs), np.asarray(sim.c_caps)
    seen = set()
    for loc, cap in zip(locs.tolist(), caps.tolist()):
        if loc < 0 or cap <= 0 or (loc, cap) in seen:
            continue
        seen.add((loc, cap))
        seg = c[loc:loc + cap]
        term = seg >= TMAX
        first = np.where(term.any(axis=0), term.argmax(axis=0), cap - 1)
        mask[loc:loc + cap] |= np.arange(seg.shape[0])[:, None] <= first[None, :]
    return mask


def same_waveforms(sim_a, c_a, sim_b, c_b, skip_idx=()):
    """True iff two simulators with the same memory map hold the same waveforms (entries up to each terminator); padding rows, content behind
    terminators and the slots listed in skip_idx (scratch) are ignored"""
    c_a, c_b = np.asarray(c_a), np.asarray(c_b)
    n = min(int(sim_a.c_len), int(sim_b.c_len))
    if int(sim_a.c_len) != int(sim_b.c_len) or c_a.shape[1] != c_b.shape[1]:
        return False
    ma, mb = live_mask(sim_a, c_a)[:n], live_mask(sim_b, c_b)[:n]
    for idx in skip_idx:
        lo, cap = int(sim_a.c_locs[idx]), int(sim_a.c_caps[idx])
        ma[lo:lo + cap] = False
        mb[lo:lo + cap] = False
    return bool(np.array_equal(ma, mb) and np.array_equal(c_a[:n][ma], c_b[:n][mb]))
