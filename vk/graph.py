"""Harness-side graph algorithms over a kyupy Circuit (own code; nothing from kyupy's traversals)."""


def is_state(n):
    k = n.kind.lower()
    return 'dff' in k or 'latch' in k


def conn_ins(n):
    return [l for l in n.ins if l is not None]


def conn_outs(n):
    return [l for l in n.outs if l is not None]


def is_source(n):
    return is_state(n) or not conn_ins(n)


def topo_nodes(c):
    """Kahn order cut at state elements; sources first.  Returns list of nodes (all of them)."""
    indeg = {}
    order = []
    ready = []
    for n in c.nodes:
        if is_source(n):
            ready.append(n)
        else:
            indeg[id(n)] = len(conn_ins(n))
    while ready:
        n = ready.pop()
        order.append(n)
        for l in conn_outs(n):
            r = l.reader
            if is_source(r):
                continue
            indeg[id(r)] -= 1
            if indeg[id(r)] == 0:
                ready.append(r)
    return order


def levels(c):
    """longest combinational distance from a source, per node index (sources: 0)"""
    lv = {}
    for n in topo_nodes(c):
        if is_source(n):
            lv[n.index] = 0
        else:
            lv[n.index] = 1 + max(lv[l.driver.index] for l in conn_ins(n))
    return lv


def comb_fanin(c, origins):
    """MUST / MAY sets of node indices for the fan-in of `origins` (DESIGN.md C17):
    MUST: nodes with a path to an origin on which no node other than the origin itself is a state element
    MAY:  nodes with any path to an origin (paths may run through state elements), origins included."""
    must, may = set(), set()
    # MUST: backward search that does not continue through state elements (except when the state element is the origin)
    stack = [(o, True) for o in origins]
    while stack:
        n, is_origin = stack.pop()
        if n.index in must:
            continue
        must.add(n.index)
        if is_state(n) and not is_origin:
            continue
        for l in conn_ins(n):
            d = l.driver
            if is_state(d):
                # the state element drives a combinational path to the origin: it has a combinational path itself
                must.add(d.index) if False else None
            stack.append((d, False))
    stack = list(origins)
    while stack:
        n = stack.pop()
        if n.index in may:
            continue
        may.add(n.index)
        for l in conn_ins(n):
            stack.append(l.driver)
    return must, may


def rewire_same_counts(c, rng, tries=20, forks_only=False):
    """Public-API edit that keeps the node and line counts: remove one line and connect another, topologically earlier,
    node to the pin it freed (no combinational loop is created).  Returns a description or None if nothing suitable was found."""
    from kyupy.circuit import Line
    order = topo_nodes(c)
    pos = {id(n): i for i, n in enumerate(order)}
    if len(order) != len(c.nodes):
        return None
    lines = list(c.lines)
    for _ in range(tries):
        l = rng.choice(lines)
        r, p, d = l.reader, l.reader_pin, l.driver
        if r.kind == '__fork__' or is_state(r) and p != 0:
            continue
        cand = [n for n in c.nodes if n is not d and n is not r and pos[id(n)] < pos[id(r)] and n.kind not in ('output',) and (n.kind == '__fork__' or len(n.outs) < 2)
                and not (n.kind == '__fork__' and not conn_ins(n) and not any(n is x for x in c.io_nodes))]
        if is_state(r):
            cand = [n for n in c.nodes if n is not d and n is not r and n.kind not in ('output',) and (n.kind == '__fork__' or len(n.outs) < 2)]
        cand = [n for n in cand if n.kind != 'input' or len(n.outs) < 1]
        if forks_only:
            cand = [n for n in cand if n.kind == '__fork__']
        if not cand:
            continue
        d2 = rng.choice(cand)
        l.remove()
        Line(c, d2, (r, p))
        return f'line {d.name}->{r.name}.{p} replaced by {d2.name}->{r.name}.{p}'
    return None
