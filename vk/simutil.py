"""Helpers shared by the simulation monitors: stimulus packing, result unpacking."""
import numpy as np


def int_to_row(bits, nbytes):
    """python-int bitset -> uint8[nbytes], lane 8*b+j = bit j of byte b"""
    return np.frombuffer(int(bits).to_bytes(nbytes, 'little'), dtype=np.uint8).copy()


def row_to_int(row):
    return int.from_bytes(np.asarray(row, dtype=np.uint8).tobytes(), 'little')


def lanes_mask(n):
    return (1 << n) - 1


def diff_lanes(a, b, n, limit=4):
    d = (a ^ b) & lanes_mask(n)
    out = []
    i = 0
    while d and len(out) < limit:
        if d & 1:
            out.append(i)
        d >>= 1
        i += 1
    return out


def mv_rows_to_planes(vals):
    """vals: list (rows) of lists (lanes) of 3-bit codes -> uint8 (rows, 3, nbytes)"""
    from .enc import to_bp
    return to_bp(np.array(vals, dtype=np.uint8))


import random as _random


class KRandom(_random.Random):
    """random.Random seeded from a string key that it remembers: a witness stores the key and replays exactly that case"""
    def __init__(self, key):
        super().__init__(key)
        self.key = key
