"""Helpers shared by the simulation monitors: stimulus packing, result unpacking."""
import numpy as np


def int_to_row(bits, nbytes):
    """python-int bitset -> uint8[nbytes], lane 8*b+j = bit j of byte b"""
    return np.frombuffer(int(bits).to_bytes(nbytes, 'little'), dtype=np.uint8).copy()


def row_to_int(row):
    return int.from_bytes(np.asarray(row, dtype=np.uint8).tobytes(), 'little')


def lanes_mask(n):
    return (1 << n) - 1


def diff_lanes(a, b, n, limit=4):
    d = (a ^ b) & lanes_mask(n)
    out = []
    i = 0
    while d and len(out) < limit:
        if d & 1:
            out.append(i)
        d >>= 1
        i += 1
    return out


def mv_rows_to_planes(vals):
    """vals: list (rows) of lists (lanes) of 3-bit codes -> uint8 (rows, 3, nbytes)"""
    from .enc import to_bp
    return to_bp(np.array(vals, dtype=np.uint8))


import random as _random


class KRandom(_random.Random):
    """random.Random seeded from a string key that it remembers: a witness stores the key and replays exactly that case"""
    def __init__(self, key):
        super().__init__(key)
        self.key = key


def parse_via(module, text, rng, ctx=None, **kw):
    """Hand `text` to a kyupy parser module (verilog, bench, sdf, stil, def_file) through one of its public entry points:
    parse(text) (most of the time), load(path) of a plain or gzip-compressed file, or load(binary file object).
    Temporary files live in $VERIF_TMP (or the system default) and are removed before returning."""
    import gzip, os, tempfile, zlib
    # the entry point is a function of the text alone, so a replay of the stored text takes the same one (`rng` is not consumed)
    r = (zlib.crc32(text.encode()) % 1000) / 1000.0
    how = 'parse' if r < 0.7 else ('load_path' if r < 0.8 else ('load_gz' if r < 0.9 else 'load_handle'))
    if ctx is not None:
        ctx.count('entry/' + how)
    # the framing of the text (white space around it) is also a function of the text alone: as written, without the final newline
    # (a file that ends with its last token), with leading blank lines, or with trailing blank lines and spaces
    r2 = (zlib.crc32(('frame:' + text).encode()) % 1000) / 1000.0
    frame = 'as_is' if r2 < 0.6 else ('no_final_newline' if r2 < 0.8 else ('leading_blank' if r2 < 0.9 else 'trailing_blank'))
    if ctx is not None:
        ctx.count('frame/' + frame)
    if frame == 'no_final_newline':
        text = text.rstrip()
    elif frame == 'leading_blank':
        text = '\n  \n' + text
    elif frame == 'trailing_blank':
        text = text + '\n   \n\t\n'
    if how == 'parse':
        return module.parse(text, **kw)
    fd, path = tempfile.mkstemp(prefix='vk-in-', suffix='.txt.gz' if how == 'load_gz' else '.txt', dir=os.environ.get('VERIF_TMP') or None)
    os.close(fd)
    try:
        if how == 'load_gz':
            with gzip.open(path, 'wt') as f:
                f.write(text)
        else:
            with open(path, 'w') as f:
                f.write(text)
        if how == 'load_handle':
            with open(path, 'rb') as f:
                return module.load(f, **kw)
        return module.load(path, **kw)
    finally:
        try:
            os.remove(path)
        except OSError:
            pass
