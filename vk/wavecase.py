"""Shared case generation / execution for the waveform-simulator monitors (C03, C04, C05, C06, C07, C13)."""
import random

import numpy as np

from . import gen_circuit as G
from . import wave as W

FEATS = ['unconn_in', 'unconn_out', 'ff_no_d', 'out_read', 'wiring', 'consts', 'floating', 'ff_unread']


def gen_case(rng, max_gates=30, xor_rich=None, caps=None, feats=None, sims=None, multi=None, large=False):
    feats = [f for f in FEATS if rng.random() < 0.25] if feats is None else feats
    xr = rng.random() < 0.4 if xor_rich is None else xor_rich
    if large:
        # beyond the usual sizes: several hundred gates, > 1024 lines, > 65535 rows of signal memory, dozens of ports and state elements
        net = G.gen_net(rng, n_gates=rng.choice([350, 600]), n_in=rng.choice([3, 24]), n_ff=rng.choice([0, 12, 36]), n_out=rng.choice([2, 18]), feats=feats, xor_rich=False)
        sims = sims or rng.choice([1, 2, 3])
        caps = caps or rng.choice([48, 72])
    else:
        net = G.gen_net(rng, n_gates=rng.randint(1, max_gates), n_in=rng.randint(1, 6), n_ff=rng.choice([0, 0, 1, 2, 3]),
                        feats=feats, xor_rich=xr)
    return {
        'net': net, 'feats': feats,
        'cls': rng.choice(['cpu', 'cpu', 'cuda']),
        'c_reuse': rng.random() < 0.4, 'strip_forks': rng.random() < 0.4,
        'sims': sims or rng.choice([1, 2, 3, 5, 8, 9, 12] * 4 + [31, 32, 33, 40, 65]),      # > 32 lanes: more than one mock-GPU block in x
        'caps': caps if caps is not None else rng.choice([4, 4, 8, 16, 32, 'perline', 'perline', 64]),
        'caps_seed': rng.randrange(1 << 30),
        'delay_seed': rng.randrange(1 << 30), 'kmax': rng.choice([4, 16, 64]), 'polind': rng.random() < 0.3,
        'dtype': rng.choice(['f4', 'f4', 'f8']), 'ndata': 1,
        'stim_seed': rng.randrange(1 << 30), 'multi': (rng.random() < 0.7) if multi is None else multi,
    }


def key_of(case):
    return [G.net_text(case['net'])] + [case[k] for k in ('cls', 'c_reuse', 'strip_forks', 'sims', 'caps', 'caps_seed', 'delay_seed',
                                                          'kmax', 'polind', 'dtype', 'stim_seed', 'multi')] + [case.get('epochs', 1)]


class Run:
    pass


def materialize(case, b=None):
    """-> Run with circuit, delays, stimulus (deterministic from the case)"""
    r = Run()
    r.case = case
    r.net = case['net']
    r.b = b or G.build(r.net)
    nl = len(r.b.c.lines)
    r.sims = case['sims']
    r.delays = W.gen_delays(np.random.default_rng(case['delay_seed']), nl, ndatasets=case.get('ndata', 1), kmax=case['kmax'],
                            polarity_independent=case['polind'], dtype=np.float32 if case['dtype'] == 'f4' else np.float64)
    if case['caps'] == 'perline':
        cr = random.Random(case['caps_seed'])
        r.caps = [cr.choice([4, 4, 8, 12, 16, 32]) for _ in range(nl)]
    else:
        r.caps = case['caps']
    srcs = r.net['inputs'] + [ff['name'] for ff in r.net['ffs']]
    r.stim = W.gen_stim(random.Random(case['stim_seed']), srcs, r.sims, multi=case['multi'])
    return r


def make_sim(r, cls=None, c_reuse=None, strip_forks=None, caps=None, delays=None, sims=None, a_ctrl=None):
    from kyupy.wave_sim import WaveSim, WaveSimCuda
    case = r.case
    cls = cls or case['cls']
    K = WaveSimCuda if cls == 'cuda' else WaveSim
    d = r.delays if delays is None else delays
    if d.shape[0] == 1 and delays is None:
        d = d[0]
    return K(r.b.c, d, sims=sims or r.sims, c_caps=r.caps if caps is None else caps, a_ctrl=a_ctrl,
             c_reuse=case['c_reuse'] if c_reuse is None else c_reuse,
             strip_forks=case['strip_forks'] if strip_forks is None else strip_forks)


def simulate(r, sim, shift=0.0, scale=1.0, capture=True, cap_time=None, **prop_kw):
    W.apply_stim(sim, r.b, r.stim, shift=shift, scale=scale)
    sim.c_prop(**prop_kw)
    if capture:
        if cap_time is None:
            sim.c_to_s()
        else:
            sim.c_to_s(time=cap_time)       # sampling time given: initial/final value, arrival and stabilisation time must not depend on it
    return sim


def expected_values(r):
    """(init values, final values) per signal as lane bitsets, from the independent evaluator"""
    net, n = r.net, r.sims
    mask = (1 << n) - 1
    srcs = net['inputs'] + [ff['name'] for ff in net['ffs']]
    ai = {s: W.stim_init(r.stim, s, n) for s in srcs}
    af = {s: W.stim_final(r.stim, s, n) for s in srcs}
    return G.eval_net(net, ai, mask), G.eval_net(net, af, mask)
