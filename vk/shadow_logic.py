"""Row-granular signal-memory sanitizer for LogicSim (DESIGN.md 2.3, last paragraph).

LogicSim stores one row per signal.  The monitor replaces `sim.c` by a recording proxy and `sim.ops` by a proxy whose
`ops[:, :6]` iteration publishes the operation being executed.  Online checks:
  region     an operation only touches its output row, its declared operand rows and the two scratch rows
  ownership  an operand row was written in the current epoch, in an earlier *level*, by the producer the netlist prescribes
             for that operand (constant-0 row: never written); capture reads see the producer of the captured line
Writes through array views (the 4-/8-valued operators write in place) are attributed when the operation ends.
LogicSim executes sequentially, so there is no race detection here; its two scratch rows are shared by design.
"""
import numpy as np

# array attributes that hand out the underlying memory (accesses through them bypass the recording proxy)
ESCAPING = {'base', 'view', 'reshape', 'ravel', 'flat', 'T', 'data', 'ctypes', 'transpose', 'swapaxes', 'squeeze'}

from . import wave as W


class _OpsProxy:
    def __init__(self, ops, mon):
        self.a = ops
        self.mon = mon

    shape = property(lambda self: self.a.shape)
    dtype = property(lambda self: self.a.dtype)

    def __len__(self):
        return len(self.a)

    def __array__(self, *a, **k):
        return self.a

    def __iter__(self):
        if self.mon.phase == 'prop':
            return self._walk(self.a)
        return iter(self.a)

    def __setitem__(self, key, v):
        self.a[key] = v

    def __getattr__(self, name):
        if name.startswith('__') and name.endswith('__'):
            raise AttributeError(name)
        return getattr(self.a, name)

    def __getitem__(self, key):
        sub = self.a[key]
        if self.mon.phase == 'prop' and getattr(sub, 'ndim', 0) == 2:
            # a row range / column selection that propagation is about to walk: publish the operation being executed
            rk = key[0] if isinstance(key, tuple) else key
            if isinstance(rk, slice):
                start, _, step = rk.indices(len(self.a))
                if step == 1:
                    return _Walk(self, sub, start)
        return sub

    def _walk(self, rows, start=0):
        for k, row in enumerate(rows):
            self.mon.op_begin(start + k, row)
            yield row
        self.mon.op_end()


class _Walk:
    """2-D selection of the operation table; iterating it attributes the accesses, everything else goes to the array"""
    def __init__(self, proxy, sub, start):
        self.proxy, self.sub, self.start = proxy, sub, start

    def __iter__(self):
        return self.proxy._walk(self.sub, self.start)

    def __len__(self):
        return len(self.sub)

    def __array__(self, *a, **k):
        return self.sub

    def __getitem__(self, key):
        return self.sub[key]

    def __getattr__(self, name):
        return getattr(self.sub, name)


class _CProxy:
    def __init__(self, arr, mon):
        self.a = arr
        self.mon = mon

    shape = property(lambda self: self.a.shape)
    nbytes = property(lambda self: self.a.nbytes)
    dtype = property(lambda self: self.a.dtype)

    def __len__(self):
        return len(self.a)

    def __array__(self, *a, **k):
        return self.a

    def __getitem__(self, key):
        self.mon.on_get(key)
        return self.a[key]

    def __setitem__(self, key, v):
        self.mon.on_set(key)
        self.a[key] = v

    def __getattr__(self, name):
        # anything else of the array interface (base, view, reshape, ctypes, ...): handed through; memory reached that way is not observed,
        # so the monitor stops judging instead of working with stale ownership
        if name.startswith('__') and name.endswith('__'):
            raise AttributeError(name)
        val = getattr(self.a, name)
        if name in ESCAPING:
            self.mon.blind = True
            self.mon.stats['unattributed'] += 1
        return val


class LogicSanitizer:
    def __init__(self, sim, circuit, report, strip_forks):
        self.sim = sim
        self.report = report
        self.c_locs = np.asarray(sim.c_locs).copy()
        self.nrows = sim.c.shape[0]
        self.zero_row = int(self.c_locs[sim.zero_idx])
        self.scratch = {int(self.c_locs[sim.tmp_idx]), int(self.c_locs[sim.tmp2_idx])}
        self.ops = np.asarray(sim.ops).copy()
        self.level_of = np.zeros(len(self.ops), dtype=np.int64)
        for lv, (a, b) in enumerate(zip(sim.level_starts, sim.level_stops)):
            self.level_of[a:b] = lv
        self.owner = np.full(self.nrows, -1, dtype=np.int64)
        self.wlevel = np.full(self.nrows, -1, dtype=np.int64)
        self.wepoch = np.full(self.nrows, -1, dtype=np.int64)
        self.epoch = 0
        self.phase = None
        self.cur = None
        self.nviol = 0
        self.blind = False
        self.stats = dict(touches=0, operand_checks=0, ops=0, capture_rows=0, assign_rows=0, unattributed=0)
        order, deps = W.line_deps(circuit, strip_forks=strip_forks)
        self.exp_writer = {li: (d[1] if d[0] == 'alias' else (-1 if d[0] == 'zero' else li)) for li, d in deps.items()}
        nl = len(circuit.lines)
        self.tmp_idx = sim.tmp_idx
        self.ppo_expect = {}
        for i, n in enumerate(circuit.s_nodes):
            loc = int(self.c_locs[sim.ppo_offset + i])
            if loc < 0:
                continue
            w = self.exp_writer.get(n.ins[0].index, n.ins[0].index) if (len(n.ins) > 0 and n.ins[0] is not None) else -1
            self.ppo_expect.setdefault(loc, set()).add(w)
        self.ppi_rows = {int(self.c_locs[sim.ppi_offset + i]): sim.ppi_offset + i for i in range(sim.s_len) if self.c_locs[sim.ppi_offset + i] >= 0}
        sim.c = _CProxy(sim.c, self)
        sim.ops = _OpsProxy(sim.ops, self)
        for name, ph in (('s_to_c', 'assign'), ('c_prop', 'prop'), ('c_to_s', 'capture')):
            orig = getattr(sim, name)

            def wrapped(*a, _orig=orig, _ph=ph, **k):
                self.phase = _ph
                if _ph == 'assign':
                    self.epoch += 1
                try:
                    return _orig(*a, **k)
                finally:
                    if _ph == 'prop':
                        self.op_end()
                    self.phase = None
            setattr(sim, name, wrapped)

    def viol(self, kind, msg):
        self.nviol += 1
        if self.nviol <= 4:
            self.report(kind, msg)

    # -- operation attribution ----------------------------------------------------------------------
    def op_begin(self, k, op):
        self.op_end()
        self.cur = (k, int(op[1]), [int(x) for x in op[2:6]], int(self.level_of[k]))
        self.stats['ops'] += 1

    def op_end(self):
        if self.cur is not None:
            k, z, opnds, lv = self.cur
            if z != self.tmp_idx:
                r = int(self.c_locs[z])
                self.owner[r], self.wlevel[r], self.wepoch[r] = z, lv, self.epoch
            self.cur = None

    def _rows(self, key):
        if isinstance(key, (int, np.integer)):
            return [int(key)]
        if isinstance(key, tuple):
            return self._rows(key[0])
        return [int(r) for r in np.atleast_1d(np.asarray(key))]

    def on_get(self, key):
        if self.blind:
            return
        if self.phase == 'prop':
            for r in self._rows(key):
                self._touch(r, False)
        elif self.phase == 'capture':
            for r in self._rows(key):
                self.stats['capture_rows'] += 1
                acc = self.ppo_expect.get(r)
                if acc is None:
                    self.viol('region', f'capture read row {r} which is not an output slot')
                    continue
                o = int(self.owner[r])
                if o == -1 and -1 in acc:
                    continue
                if o not in acc or self.wepoch[r] != self.epoch:
                    self.viol('ownership', f'capture read row {r}: last written by line {o} in epoch {self.wepoch[r]}, expected the producer of the captured line {sorted(acc)} in epoch {self.epoch}')

    def on_set(self, key):
        if self.blind:
            return
        if self.phase == 'prop':
            for r in self._rows(key):
                self._touch(r, True)
        elif self.phase == 'assign':
            for r in self._rows(key):
                self.stats['assign_rows'] += 1
                slot = self.ppi_rows.get(r)
                if slot is None:
                    self.viol('region', f'assign wrote row {r}, which is not an input slot')
                    continue
                self.owner[r], self.wlevel[r], self.wepoch[r] = slot, -1, self.epoch

    def _touch(self, r, is_write):
        if self.cur is None:
            # propagation no longer walks `ops[:, :6]` / `ops` (the repository was restructured): accesses cannot be attributed to
            # operations any more, so the monitor knows no writers - it switches itself off for this simulator instead of guessing
            self.stats['unattributed'] += 1
            self.blind = True
            return
        k, z, opnds, lv = self.cur
        self.stats['touches'] += 1
        zr = int(self.c_locs[z])
        if r == zr or r in self.scratch:
            return
        if is_write:
            self.viol('region', f'operation {k} (output line {z}) wrote row {r}, not its output row {zr}')
            return
        ok_region = False
        why = ''
        for x in opnds:
            if int(self.c_locs[x]) != r:
                continue
            ok_region = True
            self.stats['operand_checks'] += 1
            if r == self.zero_row:
                if self.owner[r] == -1:
                    return
                why = f'constant-0 row {r} was written by line {self.owner[r]}'
                continue
            want = self.exp_writer.get(x, x)
            if want == -1 and self.owner[r] == -1:
                return
            if self.owner[r] == want and self.wepoch[r] == self.epoch and self.wlevel[r] < lv:
                return
            why = (f'operation {k} (line {z}, level {lv}) reads operand line {x} (producer: line {want}) in row {r}: last written by line '
                   f'{self.owner[r]} in level {self.wlevel[r]} of epoch {self.wepoch[r]} (current epoch {self.epoch})')
        if not ok_region:
            self.viol('region', f'operation {k} (output line {z}) touched row {r}, neither its output, an operand {opnds} nor scratch')
        else:
            self.viol('ownership', why)
