"""Seeded generator of flat gate-level netlists with randomized Verilog / bench renderings (DESIGN.md C11, reused by C14).

`gen_desc` produces the description (ground truth); `render_verilog` / `render_bench` produce grammar-conforming text with
randomized surface syntax; `flat_net` turns the description into the primitive Net of vk.gen_circuit via the own library
parse of vk.hier.  Nothing here uses kyupy's parsers."""
import random
import re

from . import gen_circuit as G
from . import hier as H

# cells per library: asymmetric-friendly combinational cells (a crossed pin or reversed bus changes the function) + sequential ones
CELLS = {
    'NANGATE': ['AOI21_X1', 'OAI21_X2', 'AOI211_X1', 'OAI211_X1', 'MUX2_X1', 'AOI221_X1', 'OAI221_X2', 'AOI222_X1', 'OAI33_X1', 'NAND3_X1', 'NOR2_X1', 'INV_X1',
                'BUF_X2', 'AND2_X1', 'XOR2_X1', 'HA_X1', 'FA_X1', 'DFF_X1', 'SDFF_X1', 'DFFR_X1', 'OAI22_X1', 'NOR4_X1', 'LOGIC1_X1', 'LOGIC0_X1'],
    'SAED32': ['AO21X1_RVT', 'OA21X1_RVT', 'AOI21X1_RVT', 'OAI22X1_RVT', 'AO221X1_RVT', 'OA222X1_RVT', 'MUX21X1_RVT', 'MUX41X1_RVT', 'NAND3X0_RVT', 'NOR3X0_RVT',
               'INVX0_RVT', 'NBUFFX2_RVT', 'XOR3X1_RVT', 'FADDX1_RVT', 'HADDX1_RVT', 'DFFX1_RVT', 'SDFFX1_RVT', 'DEC24X1_RVT', 'AND4X1_RVT', 'TIEH_RVT'],
    'SAED90': ['AO21X1', 'OA21X1', 'AOI22X1', 'OAI21X1', 'AO221X1', 'AOI222X1', 'MUX21X1', 'MUX41X1', 'NAND2X0', 'NOR2X0', 'INVX0', 'NBUFFX2', 'XNOR3X1',
               'FADDX1', 'DFFX1', 'AND3X1', 'OR4X1'],
    'GSC180': ['AOI21X1', 'OAI22X1', 'OAI33X1', 'MX2X1', 'NAND3X1', 'NOR2X1', 'INVX1', 'BUFX1', 'XOR2X1', 'ADDFX1', 'ADDHX1', 'DFFX1', 'AND2X1', 'OR4X1'],
}
CONST = {"1'b0": 0, "1'b1": 1}


def gen_desc(rng, lib=None, n_inst=None, seq=True):
    lib = lib or rng.choice(sorted(CELLS))
    cells = H.lib_cells(lib)
    n_inst = n_inst or rng.randint(1, 40)
    # ports
    ports = []
    in_bits = []
    used = set()

    def fresh(prefix):
        while True:
            nm = prefix + str(rng.randrange(1000))
            if nm not in used:
                used.add(nm)
                return nm
    for _ in range(rng.randint(1, 5)):
        if rng.random() < 0.4:
            w = rng.choice([1, 2, 3, 4, 5, 12, 12, 33, 70])      # 12: indices >= 10 (numeric vs. string order); 33, 70: wider than a machine word
            lo = rng.choice([0, 1, 2, 3, 8, 9, 95, 120])            # bounds with different numbers of digits
            rg = (lo + w - 1, lo) if rng.random() < 0.5 else (lo, lo + w - 1)
            nm = fresh('ib')
            bits = [f'{nm}[{i}]' for i in _range(rg)]
            ports.append({'name': nm, 'dir': 'input', 'range': rg, 'bits': bits})
        else:
            nm = fresh('i')
            bits = [nm]
            ports.append({'name': nm, 'dir': 'input', 'range': None, 'bits': bits})
        in_bits += bits
    sigs = list(in_bits)
    insts = []
    wire_buses = []      # declared wire buses: {'name','range','bits'}
    free_bus_bits = []
    wires = []           # scalar wire names (plain)
    esc = set()          # names that need the escaped-identifier syntax
    for k in range(n_inst):
        cell = rng.choice(CELLS[lib])
        cd = cells[cell]
        is_seq = any(H.kind_to_fam(kk)[1] for _, kk, _ in cd['stmts'])
        if is_seq and not seq:
            continue
        inst = {'name': fresh('U') if rng.random() < 0.8 else fresh('u_') + '$x', 'cell': cell, 'in': {}, 'out': {}}
        if '$' in inst['name']:
            esc.add(inst['name'])
        for p in cd['ins']:
            r = rng.random()
            if r < 0.05:
                inst['in'][p] = rng.choice(["1'b0", "1'b1"])
            elif r < 0.09:
                inst['in'][p] = None
            else:
                inst['in'][p] = rng.choice(sigs[-8:]) if rng.random() < 0.6 else rng.choice(sigs)
        for p in cd['outs']:
            if len(cd['outs']) > 1 and rng.random() < 0.25 and any(v for v in inst['out'].values()):
                inst['out'][p] = None
                continue
            r = rng.random()
            if r < 0.2:
                if not free_bus_bits:
                    w = rng.randint(1, 4)
                    rg = (w - 1, 0) if rng.random() < 0.5 else (0, w - 1)
                    nm = fresh('wb')
                    bits = [f'{nm}[{i}]' for i in _range(rg)]
                    wire_buses.append({'name': nm, 'range': rg, 'bits': bits})
                    free_bus_bits += bits
                s = free_bus_bits.pop(rng.randrange(len(free_bus_bits)))
            elif r < 0.3:
                s = fresh('n') + '$' + rng.choice(['a', 'b[3]', 'c.d'])
                esc.add(s)
                wires.append(s)
            else:
                s = fresh('n')
                wires.append(s)
            inst['out'][p] = s
            sigs.append(s)
        if is_seq and not any(inst['out'].values()):
            p = cd['outs'][0]
            s = fresh('n')
            wires.append(s)
            inst['out'][p] = s
            sigs.append(s)
        insts.append(inst)
    # output ports, each bit = some signal (or a constant)
    outmap = {}
    cand = [s for s in sigs if s not in in_bits] or sigs
    for _ in range(rng.randint(1, 4)):
        if rng.random() < 0.35:
            w = rng.choice([1, 2, 3, 4, 11, 40])
            lo = rng.choice([0, 1, 2, 7, 98])
            rg = (lo + w - 1, lo) if rng.random() < 0.5 else (lo, lo + w - 1)
            nm = fresh('ob')
            bits = [f'{nm}[{i}]' for i in _range(rg)]
            ports.append({'name': nm, 'dir': 'output', 'range': rg, 'bits': bits})
        else:
            nm = fresh('o')
            bits = [nm]
            ports.append({'name': nm, 'dir': 'output', 'range': None, 'bits': bits})
        all_const = len(bits) >= 2 and rng.random() < 0.2      # a bus tied to a sized constant
        for b in bits:
            outmap[b] = rng.choice(cand[-10:]) if (rng.random() < 0.93 and not all_const) else rng.choice(["1'b0", "1'b1"])
    if rng.random() < 0.5:
        rng.shuffle(ports)
    return {'lib': lib, 'ports': ports, 'insts': insts, 'outmap': outmap, 'wire_buses': wire_buses, 'wires': wires, 'esc': sorted(esc), 'module': fresh('top')}


def _range(rg):
    l, r = rg
    return range(l, r + 1) if l <= r else range(l, r - 1, -1)


def port_order(desc):
    """expected port rows: header order, bus bits in declared range order"""
    return [b for p in desc['ports'] for b in p['bits']]


def flat_net(desc):
    cells = H.lib_cells(desc['lib'])
    in_bits = [b for p in desc['ports'] if p['dir'] == 'input' for b in p['bits']]
    flat = {'style': 'v', 'inputs': in_bits, 'ffs': [], 'gates': [], 'outputs': [], 'wiring': {}}
    flat['gates'].append({'name': "1'b0", 'kind': '__const0__', 'fam': 'C0', 'ins': [], 'out': "1'b0"})
    flat['gates'].append({'name': "1'b1", 'kind': '__const1__', 'fam': 'C1', 'ins': [], 'out': "1'b1"})
    rename = {}
    for inst in desc['insts']:          # the signal of output pin P of instance u is 'u~P' after flattening
        for p, s in inst['out'].items():
            if s is not None:
                rename[s] = f"{inst['name']}~{p}"
    for inst in desc['insts']:          # topological: a state element precedes its readers, its data pin may name a later signal
        cd = cells[inst['cell']]
        pins = {p: (rename.get(s, s) if s is not None else None) for p, s in inst['in'].items()}
        H.flatten_instance({'name': inst['name'], 'in': pins}, cd, flat)
    for p in desc['ports']:
        if p['dir'] == 'output':
            for b in p['bits']:
                s = desc['outmap'][b]
                flat['outputs'].append({'name': b, 'sig': rename.get(s, s)})
    flat['io_order'] = port_order(desc)
    return flat


# ---- Verilog rendering ------------------------------------------------------------------------------------------

def _id(name, esc):
    return '\\' + name + ' ' if name in esc or re.search(r'[^A-Za-z0-9_\[\]:]', name.split('[')[0]) else name


def render_verilog(desc, rng, style=None):
    """-> (text, features used).  Alias wires / buses are introduced by the renderer only; the description stays the truth."""
    st = style or {}
    feats = set()
    esc = set(desc['esc'])
    stm_decl, stm_other = [], []
    alias_cnt = [0]

    single = {}          # the only bit of a width-one bus -> the bus name (a width-one vector may be referenced without a select)
    for bus in list(desc['ports']) + list(desc['wire_buses']):
        if bus.get('range') and len(bus['bits']) == 1:
            single[bus['bits'][0]] = bus['name']

    def ident(n):
        # bus bit 'name[3]' of a declared bus stays as is; escaped scalar names get the backslash form
        if n in CONST:
            if st.get('noise', True) and rng.random() < 0.4:
                feats.add('const_other_spelling')
                return rng.choice(["1'B{}", "1'h{}", "1'H{}", "1'd{}", "1'D{}"]).format(CONST[n])
            return n
        if n in single and rng.random() < 0.5:
            feats.add('width_one_bus_by_name')
            return single[n]
        if n in esc:
            feats.add('escaped')
            # an escaped identifier ends at the next white space: blank, tab or line break (Verilog-2005 3.7.1)
            term = rng.choice([' ', ' ', ' ', '\t', '\n', '\r\n', ' \n']) if st.get('noise', True) else ' '
            if term != ' ':
                feats.add('escaped_other_terminator')
            return '\\' + n + term
        return n

    def ws():
        return rng.choice([' ', ' ', '  ', '\n  ', '\t', ' /* c */ ']) if st.get('noise', True) else ' '

    def rng_txt(rg):
        return f'[{rg[0]}:{rg[1]}]'

    # port declarations keep the header order among themselves
    port_decls = []
    for p in desc['ports']:
        d = p['dir'] + ws() + (rng_txt(p['range']) + ' ' if p['range'] else '') + p['name'] + ';'
        port_decls.append(d)
        if p['range']:
            feats.add('bus_desc' if p['range'][0] > p['range'][1] else 'bus_asc')
    for wb in desc['wire_buses']:
        stm_decl.append(f"wire {rng_txt(wb['range'])} {wb['name']};")
    for w in desc['wires']:
        if w in esc or rng.random() < 0.6:
            stm_decl.append(f'wire {ident(w)};')
        else:
            feats.add('implicit_wire')

    spare = {}

    def alias(sig):
        """maybe route a use of `sig` through renderer-made alias wires; returns the name to write"""
        if sig in CONST or not st.get('aliases', True):
            return sig
        r = rng.random()
        if r < 0.75:
            return sig
        if spare.get(sig) and rng.random() < 0.7:
            # a second consumer of an intermediate alias that is itself assigned elsewhere: two assigns wait for the same source
            b = spare[sig].pop()
            alias_cnt[0] += 1
            a = f'al{alias_cnt[0]}_'
            stm_other.append(f'assign {a} = {b};')
            feats.add('assign_shared_source')
            return a
        alias_cnt[0] += 1
        a = f'al{alias_cnt[0]}_'
        feats.add('assign_alias')
        if rng.random() < 0.5:
            stm_decl.append(f'wire {a};')
        if r < 0.9:
            stm_other.append(f'assign {a} = {ident(sig)};')
            spare.setdefault(sig, []).append(a)
            return a
        feats.add('assign_chain')
        cur = a
        for _ in range(rng.choice([1, 1, 2, 3])):       # a = b; b = c; ... ; last = sig   (consumers first; the list is shuffled anyway)
            alias_cnt[0] += 1
            b = f'al{alias_cnt[0]}_'
            stm_other.append(f'assign {cur} = {b};')
            spare.setdefault(sig, []).append(b)
            cur = b
        stm_other.append(f'assign {cur} = {ident(sig)};')
        return a

    # bus aliases: a declared temp bus fed by a concatenation, readers use its bits
    bus_alias = {}
    uses = [s for inst in desc['insts'] for s in inst['in'].values() if s is not None and s not in CONST]
    if st.get('aliases', True) and len(uses) >= 3 and rng.random() < 0.6:
        k = rng.randint(2, min(4, len(uses)))
        src = rng.sample(sorted(set(uses)), min(k, len(set(uses))))
        k = len(src)
        if k >= 2:
            rg = (k - 1, 0) if rng.random() < 0.5 else (0, k - 1)
            tb = f'tb{rng.randrange(100)}_'
            bits = [f'{tb}[{i}]' for i in _range(rg)]
            stm_decl.append(f'wire {rng_txt(rg)} {tb};')
            stm_other.append(f'assign {tb} = {{{", ".join(ident(s) for s in src)}}};')
            feats.add('bus_concat_assign')
            for b_, s in zip(bits, src):
                bus_alias[s] = b_
    for inst in desc['insts']:
        pins = []
        for p, s in inst['in'].items():
            if s is None:
                if rng.random() < 0.5:
                    pins.append(f'.{p}()')
                    feats.add('empty_pin')
                continue
            if s in CONST:
                feats.add('const_pin')
                pins.append(f'.{p}({ident(s)})')
                continue
            nm = s
            if s in bus_alias and rng.random() < 0.5:
                nm = bus_alias[s]
            else:
                nm = alias(s)
            pins.append(f'.{p}({ws() if rng.random() < 0.2 else ""}{ident(nm)})')
        for p, s in inst['out'].items():
            if s is None:
                if rng.random() < 0.5:
                    pins.append(f'.{p}()')
                continue
            pins.append(f'.{p}({ident(s)})')
        rng.shuffle(pins)
        attr = '(* keep = 1 *) ' if rng.random() < 0.1 and st.get('noise', True) else ''
        if attr:
            feats.add('attribute')
        stm_other.append(f'{attr}{inst["cell"]}{ws()}{ident(inst["name"])}{ws()}({", ".join(pins)});')
    # outputs: grouped assigns (whole bus, concatenation on either side, part select) or bit by bit
    for p in desc['ports']:
        if p['dir'] != 'output':
            continue
        bits = p['bits']
        srcs = [desc['outmap'][b] for b in bits]
        if p['range'] and len(bits) >= 2 and rng.random() < 0.6 and st.get('aliases', True):
            consts = all(s in CONST for s in srcs)
            if consts and rng.random() < 0.7:
                val = int(''.join(str(CONST[s]) for s in srcs), 2)
                base = rng.choice('bdh')
                lit = {'b': f"{len(bits)}'b{val:0{len(bits)}b}", 'd': f"{len(bits)}'d{val}", 'h': f"{len(bits)}'h{val:x}"}[base]
                if rng.random() < 0.4:
                    lit = lit.upper()           # 4'HA, 3'B101, 8'D17: base letter and hex digits are case insensitive
                    feats.add('sized_constant_upper_case')
                stm_other.append(f'assign {p["name"]} = {lit};')
                feats.add('sized_constant_' + base)
            else:
                rhs = '{' + ', '.join(ident(s) for s in srcs) + '}'
                if rng.random() < 0.5:
                    stm_other.append(f'assign {p["name"]} = {rhs};')
                    feats.add('bus_concat_assign')
                else:
                    lhs = '{' + ', '.join(bits) + '}' if rng.random() < 0.5 else f'{p["name"]}[{p["range"][0]}:{p["range"][1]}]'
                    stm_other.append(f'assign {lhs} = {rhs};')
                    feats.add('lhs_concat_or_partselect')
        else:
            for b, s in zip(bits, srcs):
                if s == b:
                    continue      # an instance drives the port signal directly
                stm_other.append(f'assign {ident(b)} = {ident(alias(s)) if s not in CONST else ident(s)};')
                if s in CONST:
                    feats.add('const_assign')
    body = stm_decl + stm_other
    if st.get('shuffle', True):
        rng.shuffle(body)
        feats.add('shuffled')
    # interleave the port declarations (in header order) at random positions
    pos = sorted(rng.randrange(len(body) + 1) for _ in port_decls)
    out = []
    k = 0
    for i, s in enumerate(body + [None]):
        while k < len(port_decls) and pos[k] == i:
            out.append(port_decls[k])
            k += 1
        if s is not None:
            out.append(s)
    lines = []
    for s in out:
        if st.get('noise', True) and rng.random() < 0.1:
            lines.append('// ' + rng.choice(['comment', 'assign x = y;', 'endmodule']))
            feats.add('line_comment')
        if st.get('noise', True) and rng.random() < 0.05:
            lines.append('/* multi\n line ; comment */')
            feats.add('block_comment')
        lines.append(('  ' if rng.random() < 0.7 else '') + s)
    header = f'module {desc["module"]}{ws()}({", ".join(p["name"] for p in desc["ports"])});'
    text = header + '\n' + '\n'.join(lines) + '\nendmodule\n'
    return text, feats


# ---- bench: primitive netlists -------------------------------------------------------------------------------------

BENCH_KINDS = {'AND': ['and', 'AND', 'AND2', 'and3'], 'NAND': ['nand', 'NAND'], 'OR': ['or', 'OR'], 'NOR': ['nor', 'NOR'], 'XOR': ['xor', 'XOR'], 'XNOR': ['xnor', 'XNOR'],
               'INV': ['not', 'NOT', 'inv', 'INV1'], 'BUF': ['buf', 'BUF', 'BUFF'], 'AO21': ['AO21', 'ao21'], 'OAI211': ['OAI211'], 'MUX21': ['MUX21', 'mux21'],
               'AOI22': ['AOI22']}


def gen_prim_desc(rng, n_gates=None):
    """primitive netlist that both formats can express; names match the bench NAME token"""
    n_gates = n_gates or rng.randint(1, 30)
    nin = rng.randint(1, 6)

    def nm(prefix, k):
        return rng.choice([f'{prefix}{k}', f'{prefix}_{k}', f'{k}{prefix}', f'{prefix}-{k}'])
    ins = []
    for k in range(nin):
        n = nm('i', k)
        while n in ins:
            n += 'x'
        ins.append(n)
    sigs = list(ins)
    gates, ffs = [], []
    for k in range(rng.choice([0, 0, 1, 2])):
        n = nm('q', k)
        while n in sigs:
            n += 'x'
        ffs.append({'name': n, 'kind': rng.choice(['DFF', 'dff']), 'q': n, 'qn': None, 'd': None, 'ck': None})
        sigs.append(n)
    for k in range(n_gates):
        fam = rng.choice(sorted(BENCH_KINDS))
        if fam in G.VAR_FAMS:
            ar = rng.choice([2, 2, 3, 4])
        elif fam in G.FIX_FAMS:
            ar = G.FIX_FAMS[fam]
        else:
            ar = 1
        n = nm('g', k)
        while n in sigs:
            n += 'x'
        kind = rng.choice(BENCH_KINDS[fam])
        if fam == 'AND' and kind in ('AND2', 'and3'):
            pass     # the number in the kind name is not the arity: the pins decide
        gates.append({'name': n, 'kind': kind, 'fam': fam, 'ins': [rng.choice(sigs[-7:]) if rng.random() < 0.6 else rng.choice(sigs) for _ in range(ar)], 'out': n})
        sigs.append(n)
    gs = [g['out'] for g in gates]
    for ff in ffs:
        ff['d'] = rng.choice(gs or sigs)
    outs = rng.sample(gs, min(len(gs), rng.randint(1, 4))) if gs else [rng.choice(sigs)]
    return {'style': 'b', 'inputs': ins, 'ffs': ffs, 'gates': gates, 'outputs': [{'name': o, 'sig': o} for o in outs], 'wiring': {}}


def render_bench(net, rng):
    stm = []
    ins, outs = list(net['inputs']), [o['name'] for o in net['outputs']]
    kw_in, kw_out = rng.choice(['INPUT', 'input']), rng.choice(['OUTPUT', 'output'])
    iface = []
    if rng.random() < 0.5:
        iface.append((kw_in, ins))
        iface.append((kw_out, outs))
    else:
        # several interface statements, possibly interleaved
        for s in ins:
            iface.append((kw_in, [s]))
        for s in outs:
            iface.append((kw_out, [s]))
        if rng.random() < 0.5:
            rng.shuffle(iface)
    order = []
    for kw, names in iface:
        stm.append(f'{kw}({rng.choice([",", ", ", " , "]).join(names)})')
        order += names
    body = []
    for g in net['gates']:
        body.append(f'{g["out"]}{rng.choice([" = ", "=", " =  "])}{g["kind"]}({rng.choice([",", ", "]).join(g["ins"])})')
    for ff in net['ffs']:
        body.append(f'{ff["q"]} = {ff["kind"]}({ff["d"]})')
    rng.shuffle(body)
    # interface statements keep their relative order but are interleaved with the body
    pos = sorted(rng.randrange(len(body) + 1) for _ in stm)
    out = []
    k = 0
    for i, s in enumerate(body + [None]):
        while k < len(stm) and pos[k] == i:
            out.append(stm[k])
            k += 1
        if s is not None:
            out.append(s)
    lines = []
    sep = rng.choice(['\n', '\n', ' ', '\r\n'])
    for s in out:
        if sep != ' ' and rng.random() < 0.15:       # a comment runs to the end of the line: only with one statement per line
            lines.append('# ' + rng.choice(['comment', 'x = AND(a, b)', 'INPUT(zz)']))
        lines.append(s + (rng.choice(['', '  # trailing']) if sep != ' ' and rng.random() < 0.2 else ''))
    return sep.join(lines) + '\n', order


def prim_to_verilog_desc(net, rng):
    """the same primitive netlist as a library-cell description (for the Verilog <-> bench equivalence check)"""
    lib = 'NANGATE'
    cellmap = {('AND', 2): ('AND2_X1', ['A1', 'A2'], 'Z'), ('AND', 3): ('AND3_X1', ['A1', 'A2', 'A3'], 'Z'), ('AND', 4): ('AND4_X1', ['A1', 'A2', 'A3', 'A4'], 'Z'),
               ('OR', 2): ('OR2_X1', ['A1', 'A2'], 'Z'), ('OR', 3): ('OR3_X1', ['A1', 'A2', 'A3'], 'Z'), ('OR', 4): ('OR4_X1', ['A1', 'A2', 'A3', 'A4'], 'Z'),
               ('NAND', 2): ('NAND2_X1', ['A1', 'A2'], 'ZN'), ('NAND', 3): ('NAND3_X1', ['A1', 'A2', 'A3'], 'ZN'), ('NAND', 4): ('NAND4_X1', ['A1', 'A2', 'A3', 'A4'], 'ZN'),
               ('NOR', 2): ('NOR2_X1', ['A1', 'A2'], 'ZN'), ('NOR', 3): ('NOR3_X1', ['A1', 'A2', 'A3'], 'ZN'), ('NOR', 4): ('NOR4_X1', ['A1', 'A2', 'A3', 'A4'], 'ZN'),
               ('XOR', 2): ('XOR2_X1', ['A1', 'A2'], 'Z'), ('XNOR', 2): ('XNOR2_X1', ['A1', 'A2'], 'ZN'), ('INV', 1): ('INV_X1', ['I'], 'ZN'), ('BUF', 1): ('BUF_X1', ['A'], 'Z'),
               ('OAI211', 4): ('OAI211_X1', ['C1', 'C2', 'A', 'B'], 'ZN'), ('AOI22', 4): ('AOI22_X1', ['A1', 'A2', 'B1', 'B2'], 'ZN'), ('MUX21', 3): ('MUX2_X1', ['A', 'B', 'S'], 'Z')}
    insts = []
    for ff in net['ffs']:
        insts.append({'name': ff['name'], 'cell': 'DFF_X1', 'in': {'D': ff['d'], 'CK': None}, 'out': {'Q': ff['q'], 'QN': None}})
    for g in net['gates']:
        key = (g['fam'], len(g['ins']))
        if key not in cellmap:
            return None
        cell, pins, out = cellmap[key]
        insts.append({'name': 'U_' + re.sub(r'[^A-Za-z0-9_]', '_', g['name']), 'cell': cell, 'in': dict(zip(pins, g['ins'])), 'out': {out: g['out']}})
    return insts
