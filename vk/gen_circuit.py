"""Seeded generator of hostile circuits (DESIGN.md 2.1).

A circuit is described by a plain JSON-able dict (`net`) that is the ground truth for every oracle;
`build(net)` constructs the kyupy Circuit from it *through the public API* and records which signal
every created line carries.  Nothing in here reads kyupy.sim / kyupy.logic.

net = {
  'style': 'v' | 'b',          v: input/output cells + one fork per signal;  b: bench style, forks are the ports
  'inputs':  [sig, ...],
  'ffs':     [{'name','kind','q':sig|None,'qn':sig|None,'d':sig|None,'ck':sig|None}, ...],   (creation order)
  'gates':   [{'name','kind','fam','ins':[sig|None,...],'out':sig|None}, ...],                (topological order)
  'outputs': [{'name','sig'}, ...],
  'io_order':[port name, ...]  (v: names of input/output cells; b: signal names),
  'wiring':  {sig: 'fork'|'direct'|'chain'|'branch'},
}
Signals are named after their driver.  Semantics (the documented ones): an unconnected input pin reads 0,
a fork is a wire, the second output of a flip-flop is the complement of the first, inputs and state
elements are sources, the next state of a state element is the value at its data pin (pin 0).
"""
import random
import re

# ------------------------------------------------------------------------------------------------
# the 33 primitives: canonical name -> (arity, function on python-int bitsets)

def _mk():
    F = {}
    F['BUF1'] = (1, lambda m, a: a)
    F['INV1'] = (1, lambda m, a: ~a & m)
    for n in (2, 3, 4):
        F[f'AND{n}'] = (n, lambda m, *x: _and(m, x))
        F[f'NAND{n}'] = (n, lambda m, *x: ~_and(m, x) & m)
        F[f'OR{n}'] = (n, lambda m, *x: _or(x))
        F[f'NOR{n}'] = (n, lambda m, *x: ~_or(x) & m)
        F[f'XOR{n}'] = (n, lambda m, *x: _xor(x))
        F[f'XNOR{n}'] = (n, lambda m, *x: ~_xor(x) & m)
    F['AO21'] = (3, lambda m, a, b, c: (a & b) | c)
    F['OA21'] = (3, lambda m, a, b, c: (a | b) & c)
    F['AOI21'] = (3, lambda m, a, b, c: ~((a & b) | c) & m)
    F['OAI21'] = (3, lambda m, a, b, c: ~((a | b) & c) & m)
    F['AO22'] = (4, lambda m, a, b, c, d: (a & b) | (c & d))
    F['OA22'] = (4, lambda m, a, b, c, d: (a | b) & (c | d))
    F['AOI22'] = (4, lambda m, a, b, c, d: ~((a & b) | (c & d)) & m)
    F['OAI22'] = (4, lambda m, a, b, c, d: ~((a | b) & (c | d)) & m)
    F['AO211'] = (4, lambda m, a, b, c, d: (a & b) | c | d)
    F['OA211'] = (4, lambda m, a, b, c, d: (a | b) & c & d)
    F['AOI211'] = (4, lambda m, a, b, c, d: ~((a & b) | c | d) & m)
    F['OAI211'] = (4, lambda m, a, b, c, d: ~((a | b) & c & d) & m)
    F['MUX21'] = (3, lambda m, a, b, s: (a & ~s & m) | (b & s))
    return F


def _and(m, xs):
    r = m
    for x in xs:
        r &= x
    return r


def _or(xs):
    r = 0
    for x in xs:
        r |= x
    return r


def _xor(xs):
    r = 0
    for x in xs:
        r ^= x
    return r


FUNCS = _mk()
assert len(FUNCS) == 33

VAR_FAMS = ('AND', 'NAND', 'OR', 'NOR', 'XOR', 'XNOR')
FIX_FAMS = {'AO21': 3, 'OA21': 3, 'AOI21': 3, 'OAI21': 3, 'AO22': 4, 'OA22': 4, 'AOI22': 4, 'OAI22': 4,
            'AO211': 4, 'OA211': 4, 'AOI211': 4, 'OAI211': 4, 'MUX21': 3}
# kind-name aliases the scheduler documents (sim.kind_prefixes keys), with the family they denote
ALIASES = {
    'INV': ['INV1', 'not', 'NOT1', 'inv', 'INVX2', 'IBUFFX2', 'Not'],
    'BUF': ['BUF1', 'buf', 'NBUFFX4', 'DELLN1X2', 'BUFX1', 'Buf'],
    'C0': ['__const0__', 'TIEL', 'tiel'],
    'C1': ['__const1__', 'TIEH', 'tieh'],
    'ISOLOR': ['ISOLORX1', 'isolor'],
}
DFF_KINDS = ['DFF', 'dff', 'DFFX1', 'SDFF_X1', 'Dff']
LATCH_KINDS = ['LATCH', 'latch', 'DLATCHX1']


def canonical(fam, ins):
    """(family, pin list) -> canonical primitive name + operand list (None -> unconnected)."""
    if fam in VAR_FAMS:
        hi = max([i for i, s in enumerate(ins) if s is not None], default=-1)
        n = 4 if hi >= 3 else (3 if hi == 2 else 2)
        return f'{fam}{n}', (list(ins) + [None] * 4)[:n]
    if fam in FIX_FAMS:
        n = FIX_FAMS[fam]
        return fam, (list(ins) + [None] * 4)[:n]
    if fam == 'INV':
        return 'INV1', (list(ins) + [None])[:1]
    if fam == 'BUF':
        return 'BUF1', (list(ins) + [None])[:1]
    if fam == 'C0':
        return 'BUF1', [None]
    if fam == 'C1':
        return 'INV1', [None]
    if fam == 'ISOLOR':
        return 'OR2', (list(ins) + [None, None])[:2]
    raise KeyError(fam)


def kind_name(rng, fam, nins):
    if fam in VAR_FAMS:
        base = rng.choice([f'{fam}{nins}', f'{fam}{nins}'.lower(), fam, fam.lower(), f'{fam}{nins}X1', f'{fam}{nins}_X2', fam.capitalize()])
        return base
    if fam in FIX_FAMS:
        return rng.choice([fam, fam.lower(), fam + 'X1', fam + '_X2'])
    return rng.choice(ALIASES[fam])


# ------------------------------------------------------------------------------------------------

def gen_net(rng, n_in=None, n_gates=None, n_ff=None, n_out=None, style=None, feats=(), xor_rich=False, max_gates=60, wide=None):
    """Random net. `feats` is a set of optional hostile features:
    'unconn_in' (unconnected input pins, any position), 'unconn_out' (gates without output line),
    'ff_no_d' (state element with unconnected data pin), 'out_read' (bench style outputs also read internally),
    'wiring' (direct / chain / branch-fork wiring), 'consts'."""
    style = style or rng.choice(['v', 'v', 'b'])
    n_in = n_in if n_in is not None else rng.randint(1, 8)
    n_gates = n_gates if n_gates is not None else rng.randint(1, max_gates)
    n_ff = n_ff if n_ff is not None else rng.choice([0, 0, 1, 2, 3, 6])
    n_out = n_out if n_out is not None else rng.randint(1, 6)
    feats = set(feats)
    net = {'style': style, 'inputs': [f'i{i}' for i in range(n_in)], 'ffs': [], 'gates': [], 'outputs': [], 'wiring': {}}
    sigs = list(net['inputs'])
    if 'floating' in feats:
        # floating nets: named signals without driver (a parser creates such forks for undriven wires); they read constant 0
        net['floating'] = [f'fl{i}' for i in range(rng.randint(1, 2))]
        sigs += net['floating']
    for i in range(n_ff):
        latch = rng.random() < 0.3
        kind = rng.choice(LATCH_KINDS if latch else DFF_KINDS)
        ff = {'name': f's{i}', 'kind': kind, 'q': None, 'qn': None, 'd': None, 'ck': None}
        if style == 'b':
            ff['q'] = f's{i}'
        else:
            r = rng.random()
            if 'ff_unread' in feats and r < 0.25:
                pass                                    # a state element nobody reads: no output line at all
            elif latch or r < 0.5:
                ff['q'] = f's{i}'
            elif r < 0.75:
                ff['q'], ff['qn'] = f's{i}', f's{i}n'
            else:
                ff['qn'] = f's{i}n'
        for s in (ff['q'], ff['qn']):
            if s:
                sigs.append(s)
        net['ffs'].append(ff)
    fams = list(VAR_FAMS) + list(FIX_FAMS) + ['INV', 'BUF', 'ISOLOR']
    layer_start, prev_layer = 0, []
    for g in range(n_gates):
        if xor_rich and rng.random() < 0.6:
            fam = rng.choice(['XOR', 'XNOR', 'XOR'])
        elif 'consts' in feats and rng.random() < 0.05:
            fam = rng.choice(['C0', 'C1'])
        else:
            fam = rng.choice(fams)
        if fam in VAR_FAMS:
            n = rng.choice([2, 2, 3, 4])
        elif fam in FIX_FAMS:
            n = FIX_FAMS[fam]
        elif fam in ('C0', 'C1'):
            n = 0
        elif fam == 'ISOLOR':
            n = 2
        else:
            n = 1
        # operand choice biased towards recent signals (depth) with some old ones (reconvergence, fan-out)
        ins = []
        if wide:
            # layered: the gates of one layer read only signals of the layer before (layer 0: the sources), giving levels `wide` operations wide
            if g % wide == 0:
                prev_layer = list(sigs[layer_start:]) if g else list(sigs)
                layer_start = len(sigs)
            ins = [rng.choice(prev_layer) for _ in range(n)]
        else:
            for _ in range(n):
                if rng.random() < 0.6 and len(sigs) > 3:
                    ins.append(rng.choice(sigs[-6:]))
                else:
                    ins.append(rng.choice(sigs))
        if 'unconn_in' in feats and n >= 2 and rng.random() < 0.15:
            p = rng.randrange(n)
            if fam in VAR_FAMS and p == n - 1:
                p = rng.randrange(n - 1)     # a trailing gap would change the arity, not leave a pin open
            ins[p] = None
        name = f'g{g}'
        out = name
        if 'unconn_out' in feats and rng.random() < 0.08:
            out = None
        kind = kind_name(rng, fam, n)
        net['gates'].append({'name': name, 'kind': kind, 'fam': fam, 'ins': ins, 'out': out})
        if out:
            sigs.append(out)
    gate_sigs = [g['out'] for g in net['gates'] if g['out']]
    for ff in net['ffs']:
        if 'ff_no_d' in feats and rng.random() < 0.3:
            ff['d'] = None
        else:
            ff['d'] = rng.choice(gate_sigs[-8:] if gate_sigs and rng.random() < 0.7 else sigs)
        if style == 'v' and rng.random() < 0.3:
            ff['ck'] = rng.choice(net['inputs'])
    read = set()
    for g in net['gates']:
        read.update(x for x in g['ins'] if x is not None)
    for ff in net['ffs']:
        read.update(x for x in (ff['d'], ff['ck']) if x)
    if style == 'b':
        # bench: the port is the fork of the signal itself (one port per signal, never an input or state signal);
        # unless 'out_read' is requested the port signal is not read inside the circuit
        cand = [s for s in gate_sigs if ('out_read' in feats or s not in read)]
        if not cand:
            k = len(net['gates'])
            net['gates'].append({'name': f'g{k}', 'kind': 'BUF1', 'fam': 'BUF', 'ins': [sigs[-1]], 'out': f'g{k}'})
            gate_sigs.append(f'g{k}')
            cand = [f'g{k}']
        rng.shuffle(cand)
        for sig in sorted(cand[:n_out], key=lambda x: int(x[1:])):
            net['outputs'].append({'name': sig, 'sig': sig})
    else:
        for i in range(n_out):
            pool = gate_sigs[-max(4, n_gates // 3):] if gate_sigs else sigs
            sig = rng.choice(pool if rng.random() < 0.8 else (gate_sigs or sigs))
            if rng.random() < 0.06:
                sig = rng.choice(sigs)          # any signal, also an input or a state output wired straight to a port
            net['outputs'].append({'name': f'o{i}', 'sig': sig})
    ports = net['inputs'] + [o['name'] for o in net['outputs']]
    if rng.random() < 0.5:
        rng.shuffle(ports)
    net['io_order'] = ports
    if 'wiring' in feats:
        for s in sigs:
            net['wiring'][s] = rng.choice(['fork', 'fork', 'direct', 'chain', 'chain_rev', 'branch'] if style == 'v' else ['fork', 'fork', 'chain', 'branch'])
    return net


def all_prims_net(style='v'):
    """Every primitive once on four shared inputs, every gate output observed and also fanning out into a second layer."""
    net = {'style': style, 'inputs': ['i0', 'i1', 'i2', 'i3'], 'ffs': [], 'gates': [], 'outputs': [], 'wiring': {}}
    names = []
    for k, (prim, (ar, _)) in enumerate(sorted(FUNCS.items())):
        fam = prim.rstrip('234') if prim[:-1] in VAR_FAMS else prim
        if prim in ('BUF1', 'INV1'):
            fam = 'BUF' if prim == 'BUF1' else 'INV'
        g = {'name': f'g{k}', 'kind': prim, 'fam': fam, 'ins': [f'i{p}' for p in range(ar)], 'out': f'g{k}'}
        net['gates'].append(g)
        names.append(g['out'])
    n0 = len(names)
    for k in range(n0):
        g = {'name': f'g{n0 + k}', 'kind': 'XOR2', 'fam': 'XOR', 'ins': [names[k], names[(k + 1) % n0]], 'out': f'g{n0 + k}'}
        net['gates'].append(g)
    for k, g in enumerate(net['gates']):
        net['outputs'].append({'name': f'o{k}' if style == 'v' else g['out'], 'sig': g['out']})
    if style == 'b':
        # bench outputs of the first layer are read by the second layer: keep only second-layer outputs as ports
        net['outputs'] = [o for o in net['outputs'] if int(o['sig'][1:]) >= n0]
    net['io_order'] = net['inputs'] + [o['name'] for o in net['outputs']]
    return net


# ------------------------------------------------------------------------------------------------

class Built:
    """kyupy Circuit + the harness' own bookkeeping about it."""
    def __init__(self):
        self.c = None
        self.line_sig = {}        # line index -> signal name it carries
        self.s_order = []         # expected s_nodes order: [('in'|'out'|'ff', name)]
        self.nodes_topo = []      # harness-side topological node order (sources first)
        self.feats = set()


def build(net):
    from kyupy.circuit import Circuit, Node, Line
    b = Built()
    c = Circuit('g')
    b.c = c
    style = net['style']
    readers = {}     # sig -> list of (node, pin)
    drivers = {}     # sig -> (node, pin)

    def rd(sig, node, pin):
        if sig is not None:
            readers.setdefault(sig, []).append((node, pin))

    port_nodes = {}
    if style == 'v':
        for s in net['inputs']:
            n = Node(c, s, 'input')
            port_nodes[s] = n
            drivers[s] = (n, 0)
    for ff in net['ffs']:
        n = Node(c, ff['name'], ff['kind'])
        ff['_node'] = n
        if ff['q']:
            drivers[ff['q']] = (n, 0)
        if ff['qn']:
            drivers[ff['qn']] = (n, 1)
    for g in net['gates']:
        n = Node(c, g['name'], g['kind'])
        g['_node'] = n
        if g['out']:
            drivers[g['out']] = (n, 0)
        for p, s in enumerate(g['ins']):
            rd(s, n, p)
    for ff in net['ffs']:
        rd(ff['d'], ff['_node'], 0)
        rd(ff.get('ck'), ff['_node'], 1)
    if style == 'v':
        for o in net['outputs']:
            n = Node(c, o['name'], 'output')
            port_nodes[o['name']] = n
            rd(o['sig'], n, 0)

    def mkline(d, r, sig):
        l = Line(c, d, r)
        b.line_sig[l.index] = sig
        return l

    allsigs = list(net['inputs']) + list(net.get('floating', []))
    for ff in net['ffs']:
        allsigs += [s for s in (ff['q'], ff['qn']) if s]
    allsigs += [g['out'] for g in net['gates'] if g['out']]
    forks = {}
    for sig in allsigs:
        rds = readers.get(sig, [])
        mode = net['wiring'].get(sig, 'fork')
        if style == 'b':
            f = Node(c, sig)
            forks[sig] = f
            if sig in drivers:
                mkline(drivers[sig], f, sig)
            if mode == 'chain' and rds:
                f2 = Node(c, sig + '~c')
                mkline(f, f2, sig)
                k = len(rds) // 2
                for (n, p) in rds[:k]:
                    mkline(f, (n, p), sig)
                for (n, p) in rds[k:]:
                    mkline(f2, (n, p), sig)
            elif mode == 'branch' and rds:
                for (n, p) in rds:
                    bf = Node(c, f'{sig}~{n.name}/{p}')
                    mkline(f, bf, sig)
                    mkline(bf, (n, p), sig)
            else:
                for (n, p) in rds:
                    mkline(f, (n, p), sig)
            continue
        if mode == 'direct' and len(rds) == 1 and sig in drivers:
            mkline(drivers[sig], rds[0], sig)
            continue
        if mode == 'chain_rev' and rds:
            # fork-to-fork chain whose downstream fork (and its branch lines) is created before the stem fork and stem line
            f2 = Node(c, sig + '~c')
            k = len(rds) // 2
            for (n, p) in rds[k:]:
                mkline(f2, (n, p), sig)
            f = Node(c, sig)
            forks[sig] = f
            mkline(f, f2, sig)
            for (n, p) in rds[:k]:
                mkline(f, (n, p), sig)
            if sig in drivers:
                mkline(drivers[sig], f, sig)
            continue
        f = Node(c, sig)
        forks[sig] = f
        if sig in drivers:
            mkline(drivers[sig], f, sig)
        if mode == 'chain' and rds:
            f2 = Node(c, sig + '~c')
            mkline(f, f2, sig)
            k = len(rds) // 2
            for (n, p) in rds[:k]:
                mkline(f, (n, p), sig)
            for (n, p) in rds[k:]:
                mkline(f2, (n, p), sig)
        elif mode == 'branch' and rds:
            for (n, p) in rds:
                bf = Node(c, f'{sig}~{n.name}/{p}')
                mkline(f, bf, sig)
                mkline(bf, (n, p), sig)
        else:
            for (n, p) in rds:
                mkline(f, (n, p), sig)
    if style == 'b':
        for s in net['io_order']:
            c.io_nodes.append(forks[s])
            b.s_order.append(('in' if s in net['inputs'] else 'out', s))
    else:
        for s in net['io_order']:
            c.io_nodes.append(port_nodes[s])
            b.s_order.append(('in' if s in net['inputs'] else 'out', s))
    dffs = [ff for ff in net['ffs'] if 'dff' in ff['kind'].lower()]
    lats = [ff for ff in net['ffs'] if 'dff' not in ff['kind'].lower()]
    for ff in dffs + lats:
        b.s_order.append(('ff', ff['name']))
    for ff in net['ffs']:
        ff.pop('_node', None)
    for g in net['gates']:
        g.pop('_node', None)
    return b


# ------------------------------------------------------------------------------------------------
# reference evaluation (2-valued), lanes are bits of python ints

def eval_net(net, assign, mask, force=None):
    """assign: {input sig or ff name: int bitset}.  Returns {sig: bitset} for every signal.
    force: optional {sig: bitset} - the signal is driven with these values instead (C16)."""
    val = {}
    force = force or {}

    def put(s, v):
        val[s] = force.get(s, v) if s in force else v

    for s in net['inputs']:
        put(s, assign[s] & mask)
    for s in net.get('floating', []):
        put(s, 0)
    for ff in net['ffs']:
        q = assign[ff['name']] & mask
        if ff['q']:
            put(ff['q'], q)
        if ff['qn']:
            put(ff['qn'], ~q & mask)
    for g in net['gates']:
        prim, ops = canonical(g['fam'], g['ins'])
        vs = [val[s] if s is not None else 0 for s in ops]
        v = FUNCS[prim][1](mask, *vs) & mask
        if g['out']:
            put(g['out'], v)
        else:
            val['~' + g['name']] = v
    return val


def next_state(net, val):
    return {ff['name']: (val[ff['d']] if ff['d'] is not None else 0) for ff in net['ffs']}


def observed(net, val):
    """expected captured value per s_order entry that is an output or a state element"""
    r = {}
    for o in net['outputs']:
        r[('out', o['name'])] = val[o['sig']]
    for ff in net['ffs']:
        r[('ff', ff['name'])] = val[ff['d']] if ff['d'] is not None else 0
    return r


def net_text(net):
    """bench-like rendering for evidence samples / messages"""
    parts = [f"style={net['style']}"] + (['floating(' + ','.join(net['floating']) + ')'] if net.get('floating') else []) + ['input(' + ','.join(net['inputs']) + ')',
             'output(' + ','.join(f"{o['name']}={o['sig']}" if o['name'] != o['sig'] else o['sig'] for o in net['outputs']) + ')']
    for ff in net['ffs']:
        parts.append(f"{ff['q'] or '-'}/{ff['qn'] or '-'}={ff['kind']}({ff['d']}{',' + ff['ck'] if ff.get('ck') else ''})")
    for g in net['gates']:
        parts.append(f"{g['out'] or '-'}={g['kind']}({','.join('-' if s is None else s for s in g['ins'])})")
    w = {k: v for k, v in net.get('wiring', {}).items() if v != 'fork'}
    if w:
        parts.append('wiring=' + ','.join(f'{k}:{v}' for k, v in sorted(w.items())))
    parts.append('io_order=' + ','.join(net['io_order']))
    return ' '.join(parts)


def structure_stats(net):
    """(#levels, #fanout stems) for the non-triviality rules"""
    lvl = {s: 0 for s in net['inputs'] + net.get('floating', [])}
    for ff in net['ffs']:
        for s in (ff['q'], ff['qn']):
            if s:
                lvl[s] = 0
    cnt = {}
    depth = 0
    for g in net['gates']:
        l = 1 + max([lvl[s] for s in g['ins'] if s is not None], default=0)
        if g['out']:
            lvl[g['out']] = l
        depth = max(depth, l)
        for s in g['ins']:
            if s is not None:
                cnt[s] = cnt.get(s, 0) + 1
    for ff in net['ffs']:
        if ff['d']:
            cnt[ff['d']] = cnt.get(ff['d'], 0) + 1
    for o in net['outputs']:
        cnt[o['sig']] = cnt.get(o['sig'], 0) + 1
    stems = sum(1 for v in cnt.values() if v > 1)
    return depth, stems


# ------------------------------------------------------------------------------------------------
# multi-valued reference evaluation: one python list of 3-bit codes per signal (one entry per lane)

def eval_net_mv(net, assign, nlanes, four=False, force=None):
    """assign: {input sig or ff name: [code per lane]} -> {sig: [code per lane]} by composing the documented
    operators of vk.ref_mv gate by gate.  four=True: 4-valued view (activity bit dropped)."""
    from . import ref_mv as R
    val = {}
    force = force or {}

    def put(s, v):
        val[s] = force[s] if s in force else v

    for s in net['inputs']:
        put(s, list(assign[s]))
    for s in net.get('floating', []):
        put(s, [R.ZERO] * nlanes)
    for ff in net['ffs']:
        q = list(assign[ff['name']])
        if ff['q']:
            put(ff['q'], q)
        if ff['qn']:
            put(ff['qn'], [R.v_not(x) for x in q])
    zero = [R.ZERO] * nlanes
    for g in net['gates']:
        prim, ops = canonical(g['fam'], g['ins'])
        f = R.PRIM[prim]
        cols = [val[s] if s is not None else zero for s in ops]
        v = [f(*t) for t in zip(*cols)] if cols else [f() for _ in range(nlanes)]
        if four:
            v = [x & 3 for x in v]
        if g['out']:
            put(g['out'], v)
        else:
            val['~' + g['name']] = v
    return val


# ------------------------------------------------------------------------------------------------
# line-level reference evaluation over the built circuit graph (used where single lines are forced, C16)

def eval_lines(b, net, assign, nlanes, mode='bool', strip_forks=False, force=None):
    """-> {line index: value}; value = lane bitset (mode 'bool') or list of codes (mode 'mv4'/'mv8').
    assign is keyed by source name (input signal / state element name).  force = {line index: value}: that line is
    driven with the given value instead of its computed one."""
    from . import wave as W
    from . import ref_mv as R
    force = force or {}
    mask = (1 << nlanes) - 1
    gates = {g['name']: g for g in net['gates']}
    order, deps = W.line_deps(b.c, strip_forks=strip_forks)
    lines = b.c.lines
    val = {}
    if mode == 'bool':
        zero = 0
        inv = lambda v: ~v & mask
    else:
        zero = [R.ZERO] * nlanes
        inv = lambda v: [R.v_not(x) for x in v]
    for li in order:
        d = deps[li]
        if d[0] == 'src':
            kind, name = b.s_order[d[1]]
            v = assign[name]
            v = (v & mask) if mode == 'bool' else list(v)
            if d[2]:
                v = inv(v)
        elif d[0] == 'zero':
            v = zero
        elif d[0] == 'alias':
            v = val[d[1]]
        else:
            n = lines[li].driver
            if n.kind == '__fork__':
                v = val[d[1][0]] if d[1] else zero
            else:
                g = gates[n.name]
                prim, _ = canonical(g['fam'], g['ins'])
                ar = FUNCS[prim][0]
                pins = (list(n.ins) + [None] * 4)[:ar]
                ops = [val[l.index] if l is not None else zero for l in pins]
                if mode == 'bool':
                    v = FUNCS[prim][1](mask, *ops) & mask
                else:
                    f = R.PRIM[prim]
                    v = [f(*t) for t in zip(*ops)] if ops else [f() for _ in range(nlanes)]
                    if mode == 'mv4':
                        v = [x & 3 for x in v]
        if li in force:
            v = force[li]
        val[li] = v
    return val


def extract(c):
    """Re-extraction of a (parsed, resolved) kyupy Circuit into what eval_lines needs: a Built wrapper with the documented
    row order and a gate table keyed by node name; primitive kinds are mapped by the harness' own table (vk.hier.kind_to_fam)."""
    from .hier import kind_to_fam
    from . import graph
    b = Built()
    b.c = c
    ios = list(c.io_nodes)
    for n in ios:
        driven = len(n.ins) > 0 and n.ins[0] is not None
        b.s_order.append(('out' if driven else 'in', n.name))
    b.s_order += [('ff', n.name) for n in c.nodes if 'dff' in n.kind.lower()]
    b.s_order += [('ff', n.name) for n in c.nodes if 'dff' not in n.kind.lower() and 'latch' in n.kind.lower()]
    gates = []
    iset = {id(n) for n in ios}
    for n in c.nodes:
        if n.kind == '__fork__' or id(n) in iset or graph.is_state(n) or n.kind in ('input', 'output'):
            continue
        fam, _ = kind_to_fam(re.sub(r'^(NAND|NOR|AND|OR|XNOR|XOR)$', r'\1', n.kind.upper()) if False else n.kind)
        gates.append({'name': n.name, 'kind': n.kind, 'fam': fam, 'ins': [('x' if l is not None else None) for l in n.ins], 'out': n.name})
    return b, {'gates': gates}
