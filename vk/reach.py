"""Reach evidence: which source lines of the repository under test were executed at least once.

Uses sys.monitoring (3.12) LINE events that return DISABLE after the first hit, so the cost is one
callback per distinct line.  Deciding branches are located by *source text* so an edit to the
repository does not silently detach them.
"""
import os
import sys

from . import REPO

_hits = {}     # filename -> set(lineno)
_src = os.path.join(REPO, 'src') + os.sep
TOOL = 3


def start():
    mon = getattr(sys, 'monitoring', None)
    if mon is None:
        return False
    try:
        mon.use_tool_id(TOOL, 'vk-reach')
    except ValueError:
        return False

    def on_line(code, lineno):
        fn = code.co_filename
        if fn.startswith(_src):
            _hits.setdefault(fn, set()).add(lineno)
        return mon.DISABLE

    mon.register_callback(TOOL, mon.events.LINE, on_line)
    mon.set_events(TOOL, mon.events.LINE)
    return True


def stop():
    mon = getattr(sys, 'monitoring', None)
    if mon is None:
        return
    try:
        mon.set_events(TOOL, 0)
        mon.free_tool_id(TOOL)
    except ValueError:
        pass


def lines_hit(relfile):
    return _hits.get(os.path.join(_src, 'kyupy', relfile), set())


def text_reached(relfile, text, which='any'):
    """True if a source line of kyupy/<relfile> containing `text` was executed."""
    path = os.path.join(_src, 'kyupy', relfile)
    try:
        with open(path) as f:
            src = f.read().split('\n')
    except OSError:
        return False
    nums = [i + 1 for i, l in enumerate(src) if text in l]
    hit = lines_hit(relfile)
    if not nums:
        return False
    return all(n in hit for n in nums) if which == 'all' else any(n in hit for n in nums)


def text_located(relfile, text):
    """True if some source line of kyupy/<relfile> contains `text` (False: the line was rewritten, nothing to look for)."""
    try:
        with open(os.path.join(_src, 'kyupy', relfile)) as f:
            return any(text in l for l in f.read().split('\n'))
    except OSError:
        return False


def summary(anchors):
    """anchors: {label: (relfile, first, last)} -> {label: 'hit/total executable-ish lines'} plus raw line lists."""
    out = {}
    for label, (relfile, lo, hi) in anchors.items():
        hit = sorted(n for n in lines_hit(relfile) if lo <= n <= hi)
        out[label] = hit
    return out
