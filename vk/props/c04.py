"""C04 - transitions stay inside the static-timing window and move rigidly with the inputs."""
import random

import numpy as np

from .. import gen_circuit as G
from .. import wave as W
from .. import wavecase as WC

ID = 'C04'
TECHNIQUE = 'runtime monitoring: every transition time in the real simulator\'s signal memory is checked against an independent static-timing window; metamorphic shift/scale re-executions compared entry by entry; monotonicity walker'
LEVEL_TEXT = ('For seeded circuits, delays and multi-transition stimuli on a dyadic grid the monitor reads every finite entry of every waveform from the '
              'real simulator memory and checks earliest <= t <= latest from an own STA over the netlist, checks s[4]/s[5], re-runs the same simulator with '
              'all inputs shifted (and with times+delays scaled by 2^k) and demands exact equality entry by entry, and checks strictly increasing '
              'timestamps when delays are polarity independent. Held on what was generated.')
LEVEL_NOTE = 'trusted: vk/wave.py STA/decoder, vk/graph.py; exact float32 arithmetic on the grid (no tolerance anywhere)'
DESIGN_REF = 'DESIGN.md section 3 C04'
LEVEL = 'exploration'
RULE = ('Cases as C03 (mostly memory reuse off so every line is observable; one case in five with reuse on, where only the captured rows are checked; one in three on a simulator object that processed another stimulus before), single delay dataset. Non-trivial iff some waveform has >= 2 finite entries. '
        'Distinct = digest of all case fields incl. shift / scale.'
        ' One large case per shard; scales 2^-40..2^40; memories are compared as waveforms (entries up to each terminator, below c_len).')
ASSUMPTIONS = ['times k/4 with k < 1024, delays k/4 with k < 64, shifts in {1/4..64}, scales 2^-40..2^40: every sum is exact in float32',
               'strict monotonicity is only demanded when all four delay entries of every line are equal']
REACH = {'wave_sim._wave_eval': ('wave_sim.py', 155, 265)}
REACH_TEXT = {'pulse-filter': ('wave_sim.py', 'previous_t = cbuf[z_mem + z_cur - 1, sim] if z_cur > 0 else TMIN'), 'overflow-branch': ('wave_sim.py', 'overflows += 1')}


def plan(tier, seed):
    n = 300 if tier == 'quick' else 6000
    return [{'n': n} for _ in range(16)]


def conclude(agg):
    c = agg['counters']
    return [f'monitor counter {k} is zero' for k in ('transitions_in_window', 'shift_pairs', 'scale_pairs', 'monotonic_waveforms',
                                                     'multi_transition_waveforms', 'capture_window_rows', 'zero_delay_lines', 'reached/pulse-filter', 'reused_simulator_cases')
            if c.get(k, 0) == 0]


def check_case(case, ctx):
    r = WC.materialize(case)
    net, n, b = r.net, r.sims, r.b
    nontrivial = False
    reuse = bool(case.get('c_reuse'))       # with memory reuse only the captured rows are observable
    with ctx.guard('simulation-raises', case):
        sim = WC.make_sim(r, c_reuse=reuse)
        if case.get('epochs', 1) > 1:
            # the simulator object saw another stimulus before (batch processing): stale waveforms must not leak into this run
            other = WC.materialize(dict(case, stim_seed=case['stim_seed'] + 31), b=b).stim
            keep = r.stim
            r.stim = other
            WC.simulate(r, sim)
            r.stim = keep
            ctx.count('reused_simulator_cases')
        WC.simulate(r, sim)
        c = np.asarray(sim.c).copy()
        s = np.asarray(sim.s).copy()
        d = r.delays[0].astype(np.float64)
        ctx.count('zero_delay_lines', int((d.reshape(len(d), -1).max(axis=1) == 0).sum()))
        deps = W.line_deps(b.c, strip_forks=case['strip_forks'])
        ear, lat = W.sta_windows(b.c, deps, d, r.stim, b, n)
        for li in ([] if reuse else b.line_sig):
            loc, cap = int(sim.c_locs[li]), int(sim.c_caps[li])
            for lane in range(n):
                init, times, term = W.decode_col(c[loc:loc + cap, lane])
                if len(times) >= 2:
                    nontrivial = True
                    ctx.count('multi_transition_waveforms')
                for t in times:
                    ctx.count('transitions_in_window')
                    if not (ear[li, lane] <= t <= lat[li, lane]):
                        ctx.violation('sta-window', f'line {li} ({b.line_sig[li]}) lane {lane}: transition at {t} outside the static-timing window '
                                      f'[{ear[li, lane]}, {lat[li, lane]}]; {case["cls"]} strip={case["strip_forks"]} caps={case["caps"]}; {G.net_text(net)[:500]}', case)
                        return
                if case['polind']:
                    ctx.count('monotonic_waveforms')
                    for t0, t1 in zip(times, times[1:]):
                        if not t1 > t0:
                            ctx.violation('monotonic', f'line {li} lane {lane}: timestamps {times} are not strictly increasing although delays are polarity independent; {G.net_text(net)[:400]}', case)
                            return
        # capture summary inside the window
        for row, (kind, name) in enumerate(b.s_order):
            if kind == 'in':
                continue
            nd = b.c.s_nodes[row]
            if not (len(nd.ins) > 0 and nd.ins[0] is not None):
                continue
            li = nd.ins[0].index
            for lane in range(n):
                ctx.count('capture_window_rows')
                eat, lst = float(s[4, row, lane]), float(s[5, row, lane])
                if eat < W.TMAX and not (ear[li, lane] <= eat <= lat[li, lane]):
                    ctx.violation('sta-window', f'{kind} {name} lane {lane}: earliest arrival {eat} outside [{ear[li, lane]}, {lat[li, lane]}]', case)
                    return
                if lst > W.TMIN and not (ear[li, lane] <= lst <= lat[li, lane]):
                    ctx.violation('sta-window', f'{kind} {name} lane {lane}: latest stabilisation {lst} outside [{ear[li, lane]}, {lat[li, lane]}]', case)
                    return
        # metamorphic: shift
        rr = random.Random(case['stim_seed'] ^ 0xC04)
        shift = rr.choice([0.25, 0.5, 1.0, 3.75, 16.0, 64.0])
        sim2 = WC.make_sim(r, c_reuse=reuse)
        WC.simulate(r, sim2, shift=shift)
        c2 = np.asarray(sim2.c)
        fin = (c > W.TMIN) & (c < W.TMAX)
        expc = np.where(fin, c + np.float32(shift), c)
        ctx.count('shift_pairs')
        live, live2 = W.live_mask(sim, c), W.live_mask(sim2, c2)      # entries that belong to a waveform (not: padding rows, content behind a terminator)
        if not reuse and case.get('epochs', 1) == 1 and (c.shape != c2.shape or not np.array_equal(live, live2) or not np.array_equal(expc[live], c2[live])):
            i, j = [int(x[0]) for x in np.nonzero((live != live2) | (live & (expc != c2)))] if c.shape == c2.shape else (0, 0)
            ctx.violation('rigid-shift', f'shifting every input transition by {shift} does not shift memory row {i} lane {j}: {c[i, j]} -> {c2[i, j]}; '
                          f'{case["cls"]} caps={case["caps"]}; {G.net_text(net)[:400]}', dict(case, shift=shift))
            return
        s2 = np.asarray(sim2.s)
        cap_rows = np.array([kind != 'in' for kind, _ in b.s_order])
        for k in (4, 5):
            f2 = (s[k] > W.TMIN) & (s[k] < W.TMAX) & cap_rows[:, None]
            if not np.array_equal(np.where(f2, s[k] + np.float32(shift), s[k])[cap_rows], s2[k][cap_rows]):
                ctx.violation('rigid-shift', f's[{k}] does not shift by {shift}', dict(case, shift=shift))
                return
        for k in (3, 6, 10):
            if not np.array_equal(s[k][cap_rows], s2[k][cap_rows]):
                ctx.violation('rigid-shift', f's[{k}] changes when the inputs are shifted by {shift}', dict(case, shift=shift))
                return
        # metamorphic: scale times and delays by 2^k
        k = rr.choice([-2, -1, 1, 2, 3, -12, -16, 10, -24, -30, -40, 20, 40])      # extreme scales stay exact in float32 (only the exponent changes)
        sc = 2.0 ** k
        sim3 = WC.make_sim(r, c_reuse=reuse, delays=(r.delays * r.delays.dtype.type(sc))[0])
        WC.simulate(r, sim3, scale=sc)
        c3 = np.asarray(sim3.c)
        ctx.count('scale_pairs')
        exps = np.where(fin, c * np.float32(sc), c)
        s3 = np.asarray(sim3.s)
        for k4 in (4, 5):
            f4 = (s[k4] > W.TMIN) & (s[k4] < W.TMAX) & cap_rows[:, None]
            if not np.array_equal(np.where(f4, s[k4] * np.float32(sc), s[k4])[cap_rows], s3[k4][cap_rows]):
                ctx.violation('rigid-scale', f's[{k4}] does not scale by {sc}; reuse={reuse}; {G.net_text(net)[:400]}', dict(case, scale=sc))
                return
        live3 = W.live_mask(sim3, c3)
        if not reuse and case.get('epochs', 1) == 1 and (c.shape != c3.shape or not np.array_equal(live, live3) or not np.array_equal(exps[live], c3[live])):
            i, j = [int(x[0]) for x in np.nonzero((live != live3) | (live & (exps != c3)))] if c.shape == c3.shape else (0, 0)
            ctx.violation('rigid-scale', f'scaling times and delays by {sc} does not scale memory row {i} lane {j}: {c[i, j]} -> {c3[i, j]}; {G.net_text(net)[:400]}',
                          dict(case, scale=sc))
            return
    ctx.case(case, nontrivial, key=WC.key_of(case))
    ctx.sample({'netlist': G.net_text(net)[:400], **{k: case[k] for k in ('cls', 'strip_forks', 'sims', 'caps', 'kmax', 'polind', 'dtype', 'multi')}})


def run(spec, ctx):
    for i in range(spec['n']):
        rng = random.Random(f'C04/{spec["seed"]}/{spec["shard"]}/{i}')
        case = WC.gen_case(rng, multi=True if i % 3 else None, large=(i == 1))
        if i == 1:
            ctx.count('large_cases')
        case['c_reuse'] = (i % 5 == 4)
        case['epochs'] = 2 if i % 3 == 2 else 1
        if i % 4 == 0:
            case['polind'] = True
        check_case(case, ctx)


def replay(case, ctx):
    check_case(case, ctx)
