"""C14 - every SDF delay lands on the right line, polarity and dataset - none is lost."""
import random

import numpy as np

from .. import gen_netlist as N
from ..simutil import KRandom, parse_via
from .. import hier as H

ID = 'C14'
TECHNIQUE = 'runtime monitoring: seeded netlists are parsed by the real Verilog parser, seeded SDF texts (own renderer, many groupings) by the real SDF parser; the arrays returned by the real iopaths()/interconnects() are compared element by element with the generator\'s delay table, including every entry that must stay 0'
LEVEL_TEXT = ('For each seeded netlist (branchforks on/off) an SDF file is rendered from a ground-truth table keyed (dataset, line, input polarity, output polarity): header '
              'fields, comments, TIMINGCHECK blocks, shuffled entries, entries of one instance split over several CELL blocks and several DELAY blocks, several '
              'top-level blocks, posedge/negedge qualifiers, empty and partially empty triples, one or two value lists, escaped instance names. The complete arrays from '
              'the real DelayFile.iopaths() and .interconnects() must equal the table exactly. Held on what was generated.')
LEVEL_NOTE = 'trusted: the SDF renderer and table in this module, vk/gen_netlist.py; lines are identified through the parsed circuit by (instance, pin) and cross-checked by fork names'
DESIGN_REF = 'DESIGN.md section 3 C14'
LEVEL = 'exploration'
RULE = ('Cases: (netlist, branchforks, SDF rendering seed). Non-trivial iff the entries of some instance are split over >= 2 CELL blocks and the file has an edge-qualified '
        'IOPATH. Distinct = digest of (Verilog text, SDF text, branchforks).'
        " Delay values with 3-6 decimals, tiny and 8-digit magnitudes, integers and '.5' forms; one netlist of 130-280 instances per shard; the same DelayFile applied to a second circuit of the same name; texts reach the parser through parse() or the load() variants.")
ASSUMPTIONS = ['entries are applied in file order: where two IOPATH entries address the same line and input polarity the later one wins, an empty value list reading as 0 there too',
               'INTERCONNECT entries are generated only where the documented precondition holds (a branch fork exists or the net has exactly one reader)',
               'one or two value lists per entry; values >= 0 with three decimals']
REACH = {'sdf.DelayFile': ('sdf.py', 37, 136), 'sdf.transformer': ('sdf.py', 143, 170)}


def plan(tier, seed):
    q = tier == 'quick'
    return [{'n': 60 if q else 2500} for _ in range(16)]


def conclude(agg):
    c = agg['counters']
    return [f'monitor counter {k} is zero' for k in ('files', 'iopath_entries', 'interconnect_entries', 'split_instances', 'multi_toplevel_blocks', 'edge_qualified',
                                                     'empty_triples', 'partial_triples', 'single_value_lists', 'array_cells_compared', 'nonzero_expected', 'branchfork_cases',
                                                     'plain_cases', 'escaped_instances', 'timingcheck_blocks', 'overlapping_entries', 'second_circuit_same_delayfile')
            if c.get(k, 0) == 0]


def val(rng):
    """a delay value as SDF text: mostly three decimals as tools write them, but also more digits, tiny and large magnitudes, integers and '.5' forms"""
    r = rng.random()
    if r < 0.6:
        return f'{rng.randrange(0, 5000) / 1000:.3f}'
    if r < 0.75:
        return f'{rng.randrange(0, 500000) / 100000:.5f}'
    if r < 0.85:
        return f'{rng.randrange(1, 999) / 1000000:.6f}'
    if r < 0.93:
        return f'{rng.randrange(0, 99999999) / 1000:.3f}'
    if r < 0.97:
        return str(rng.randrange(0, 50))
    return f'{rng.randrange(1, 999) / 1000:.3f}'[1:]


def triple(rng, stats):
    """-> (text, [min, typ, max])"""
    r = rng.random()
    if r < 0.08:
        stats['empty_triples'] += 1
        return '()', [0.0, 0.0, 0.0]
    vs = [val(rng) for _ in range(3)]
    if r < 0.2:
        k = rng.randrange(3)
        vs[k] = ''
        stats['partial_triples'] += 1
    return '(' + ':'.join(vs) + ')', [float(v) if v else 0.0 for v in vs]


def sdf_name(name, rng):
    """instance name as an SDF identifier"""
    if any(ch in name for ch in '$[].'):
        return ''.join('\\' + ch if ch in '$[].' else ch for ch in name), True
    return name, False


def gen_sdf(rng, desc, c, lib, branchforks, stats):
    """-> (text, expected iopath array, expected interconnect array)"""
    nl = len(c.lines)
    exp_io = np.zeros((3, nl, 2, 2))
    exp_ic = np.zeros((3, nl, 2, 2))
    cells = H.lib_cells(desc['lib'])
    per_inst = {}           # instance -> list of entry texts
    top_entries = []
    for inst in desc['insts']:
        cd = cells[inst['cell']]
        if not cd['outs'] or rng.random() < 0.15:
            continue
        node = c.cells[inst['name']]
        ents = []
        opin = rng.choice(cd['outs'])
        for p, s in inst['in'].items():
            if s is None or rng.random() < 0.2:
                continue
            line = node.ins[lib.pin_index(inst['cell'], p)]
            if line is None:
                continue
            mode = rng.choice(['both', 'both', 'pos', 'neg', 'posneg'])
            for edge in {'both': [None], 'pos': ['posedge'], 'neg': ['negedge'], 'posneg': ['posedge', 'negedge']}[mode]:
                t1, v1 = triple(rng, stats)
                if rng.random() < 0.25:
                    txt, v2 = t1, v1
                    stats['single_value_lists'] += 1
                else:
                    t2, v2 = triple(rng, stats)
                    txt = f'{t1} {t2}'
                ipin = p if edge is None else f'({edge} {p})'
                if edge:
                    stats['edge_qualified'] += 1
                ents.append((f'(IOPATH {ipin} {opin} {txt})', line.index, [0, 1] if edge is None else [0 if edge == 'posedge' else 1], v1, v2))
                stats['iopath_entries'] += 1
            if rng.random() < 0.2:
                # a second, overlapping entry for the same pin (unqualified followed by a qualified one, or a repeated entry, possibly
                # with empty value lists): entries are applied in file order, an empty list reads as 0 like everywhere else
                edge = rng.choice([None, 'posedge', 'negedge'])
                t1, v1 = triple(rng, stats)
                t2, v2 = triple(rng, stats)
                ipin = p if edge is None else f'({edge} {p})'
                ents.append((f'(IOPATH {ipin} {opin} {t1} {t2})', line.index, [0, 1] if edge is None else [0 if edge == 'posedge' else 1], v1, v2))
                stats['iopath_entries'] += 1
                stats['overlapping_entries'] = stats.get('overlapping_entries', 0) + 1
        if ents:
            per_inst[inst['name']] = ents
    # interconnects
    def add_ic(src, dst, line):
        t1, v1 = triple(rng, stats)
        if rng.random() < 0.25:
            txt, v2 = t1, v1
            stats['single_value_lists'] += 1
        else:
            t2, v2 = triple(rng, stats)
            txt = f'{t1} {t2}'
        top_entries.append(f'(INTERCONNECT {src} {dst} {txt})')
        stats['interconnect_entries'] += 1
        exp_ic[:, line.index, :, 0] = np.array(v1)[:, None]
        exp_ic[:, line.index, :, 1] = np.array(v2)[:, None]
    drv = {}
    for inst in desc['insts']:
        for p, s in inst['out'].items():
            if s is not None:
                drv[s] = f'{sdf_name(inst["name"], rng)[0]}/{p}'
    for pt in desc['ports']:
        if pt['dir'] == 'input':
            for b in pt['bits']:
                drv[b] = b.replace('[', '\\[').replace(']', '\\]') if False else b
    for inst in desc['insts']:
        node = c.cells[inst['name']]
        for p, s in inst['in'].items():
            if s is None or s in N.CONST or s not in drv or rng.random() < 0.4:
                continue
            if '[' in drv[s] and '/' not in drv[s]:
                continue       # bus-bit port names are looked up verbatim by interconnects(); keep to scalar ports
            line = node.ins[lib.pin_index(inst['cell'], p)]
            if line is None:
                continue
            f2 = line.driver
            if branchforks:
                tgt = f2.ins[0]                    # stem fork -> branch fork
            elif len(f2.outs) == 1 and len(f2.ins) > 0 and f2.ins[0] is not None:
                tgt = f2.ins[0]                    # sole reader: driver -> fork
            else:
                continue
            add_ic(drv[s], f'{sdf_name(inst["name"], rng)[0]}/{p}', tgt)
    text_parts = []
    hdr = [('SDFVERSION', '"3.0"'), ('DESIGN', f'"{desc["module"]}"'), ('DATE', '"Mon Jan 1 00:00:00 2024"'), ('VENDOR', '"vk"'), ('PROGRAM', '"gen"'),
           ('VERSION', '"1.0"'), ('DIVIDER', '/'), ('VOLTAGE', '1.00:1.00:1.00'), ('PROCESS', '"typical"'), ('TEMPERATURE', '25.00:25.00:25.00'), ('TIMESCALE', '1ns')]
    for k, v in hdr:
        if rng.random() < 0.7:
            text_parts.append(f'({k} {v})')
    blocks = []
    # top-level blocks (INSTANCE without name) hold the interconnects; possibly several of them
    rng.shuffle(top_entries)
    ntop = 1 if len(top_entries) < 2 or rng.random() < 0.5 else rng.randint(2, 3)
    if ntop > 1:
        stats['multi_toplevel_blocks'] += 1
    for k in range(ntop):
        part = top_entries[k::ntop]
        blocks.append(f'(CELL (CELLTYPE "{desc["module"]}") (INSTANCE) (DELAY (ABSOLUTE {" ".join(part)})))')
    inst_blocks = []
    for name, ents in per_inst.items():
        if not any(True for _ in ents):
            continue
        # entries for one pin keep their relative order (the overlap semantics is sequential); different pins are shuffled
        byline = {}
        for e in ents:
            byline.setdefault(e[1], []).append(e)
        groups = list(byline.values())
        rng.shuffle(groups)
        ents = [e for g in groups for e in g]
        sname, escd = sdf_name(name, rng)
        if escd:
            stats['escaped_instances'] += 1
        nblk = 1 if len(ents) < 2 or rng.random() < 0.5 else rng.randint(2, min(3, len(ents)))
        if nblk > 1:
            stats['split_instances'] += 1
        cell = next(i['cell'] for i in desc['insts'] if i['name'] == name)
        cuts = sorted(rng.sample(range(1, len(ents)), nblk - 1)) if nblk > 1 else []
        parts = [ents[a:b_] for a, b_ in zip([0] + cuts, cuts + [len(ents)])]      # contiguous: file order = list order
        for k in range(nblk):
            part_e = parts[k]
            part = [e[0] for e in part_e]
            if len(part) >= 2 and rng.random() < 0.4:
                h = len(part) // 2
                body = f'(DELAY (ABSOLUTE {" ".join(part[:h])})) (DELAY (ABSOLUTE {" ".join(part[h:])}))'
            else:
                body = f'(DELAY (ABSOLUTE {" ".join(part)}))'
            tc = ''
            if rng.random() < 0.25:
                tc = ' (TIMINGCHECK (SETUP D (posedge CK) (0.100:0.100:0.100)) (HOLD D (posedge CK) (0.050::0.050)))'
                stats['timingcheck_blocks'] += 1
            blocks.append((f'(CELL (CELLTYPE "{cell}") (INSTANCE {sname}) {body}{tc})', name, k, part_e))
    # blocks of different instances are interleaved at random, the blocks of one instance keep their order
    top_blocks = [b_ for b_ in blocks if isinstance(b_, str)]
    inst_b = [b_ for b_ in blocks if not isinstance(b_, str)]
    seqs = {}
    for b_ in inst_b:
        seqs.setdefault(b_[1], []).append(b_)
    order = [nm for nm, lst in seqs.items() for _ in lst]
    rng.shuffle(order)
    laid = []
    for nm in order:
        laid.append(seqs[nm].pop(0))
    for text, nm, k, part_e in laid:          # expectation in file order: a later entry for the same position wins
        for _, li, pols, v1, v2 in part_e:
            for ip in pols:
                exp_io[:, li, ip, 0] = v1
                exp_io[:, li, ip, 1] = v2
    blocks = top_blocks + [b_[0] for b_ in laid]
    mix = list(range(len(blocks)))
    # keep relative order of instance blocks while mixing in the top-level blocks
    pos_top = sorted(rng.sample(range(len(blocks)), len(top_blocks)))
    out_blocks, ti, ii = [], 0, 0
    for i in range(len(blocks)):
        if ti < len(pos_top) and pos_top[ti] == i:
            out_blocks.append(top_blocks[ti]); ti += 1
        else:
            out_blocks.append(laid[ii][0]); ii += 1
    blocks = out_blocks
    lines = []
    for b_ in text_parts + blocks:
        if rng.random() < 0.15:
            lines.append('// ' + rng.choice(['comment', '(CELL (INSTANCE x))', 'IOPATH']))
        if rng.random() < 0.5:
            # line breaks only between entries: the grammar's identifier tokens run up to the next blank or parenthesis
            nl = rng.choice(['\n  (', '\n\t('])
            for kw in ('CELLTYPE', 'INSTANCE', 'DELAY', 'ABSOLUTE', 'IOPATH', 'INTERCONNECT', 'TIMINGCHECK'):
                b_ = b_.replace(' (' + kw, nl + kw)
        lines.append(b_)
    return '(DELAYFILE\n' + '\n'.join(lines) + '\n)\n', exp_io, exp_ic


def check_case(ctx, rng, idx):
    from kyupy import verilog, sdf
    import kyupy.techlib as T
    desc = N.gen_desc(rng, n_inst=rng.randint(1, 25) if idx != 1 else rng.choice([130, 280]))       # idx 1: more than 127 / 255 instances and CELL blocks
    if idx == 1:
        ctx.count('large_cases')
    vtext, feats = N.render_verilog(desc, rng, style={'aliases': False})
    bf = rng.random() < 0.5
    lib = getattr(T, desc['lib'])
    stats = dict.fromkeys(['empty_triples', 'partial_triples', 'single_value_lists', 'edge_qualified', 'iopath_entries', 'interconnect_entries', 'split_instances',
                           'multi_toplevel_blocks', 'escaped_instances', 'timingcheck_blocks'], 0)
    case = {'verilog': vtext, 'lib': desc['lib'], 'branchforks': bf, 'rngkey': getattr(rng, 'key', None)}
    with ctx.guard('sdf-raises', case):
        c = verilog.parse(vtext, tlib=lib, branchforks=bf)
        stext, exp_io, exp_ic = gen_sdf(rng, desc, c, lib, bf, stats)
        case['sdf'] = stext
        df = parse_via(sdf, stext, rng, ctx)
        ctx.count('files')
        ctx.count('branchfork_cases' if bf else 'plain_cases')
        for k, v in stats.items():
            ctx.count(k, v)
        for label, fn, exp in (('iopaths', df.iopaths, exp_io), ('interconnects', df.interconnects, exp_ic)):
            if label == 'interconnects' and getattr(df, '_interconnects', ()) is None:
                if exp.any():
                    ctx.violation('interconnect-table', 'interconnects() has no top-level block although the file contains INTERCONNECT entries', case)
                continue
            got = fn(c, lib)
            again = fn(c, lib)
            if got.shape == again.shape and not np.array_equal(got, again):
                ctx.violation('delay-table', f'{label}() returns different arrays when called twice on the same DelayFile and circuit', case)
                break
            ctx.count('array_cells_compared', int(exp.size))
            ctx.count('nonzero_expected', int((exp != 0).sum()))
            if got.shape != exp.shape:
                ctx.violation('delay-array-shape', f'{label}() returns shape {got.shape}, expected {exp.shape} = [dataset, line, input polarity, output polarity]', case)
                break
            if not np.array_equal(got, exp):
                d, li, ip, op = [int(x[0]) for x in np.nonzero(got != exp)]
                l = c.lines[li]
                ctx.violation('delay-table', f'{label}()[dataset {d}, line {li} ({l.driver.name} -> {l.reader.name} pin {l.reader_pin}), in-pol {ip}, out-pol {op}] = '
                              f'{got[d, li, ip, op]}, the file states {exp[d, li, ip, op]} ({int((got != exp).sum())} entries differ; branchforks={bf})', case)
                break
        # the same DelayFile object applied to a second circuit with the same module name (the other fork style): nothing may carry over
        # from the first circuit - the result must be that of a freshly parsed DelayFile
        c2 = verilog.parse(vtext, tlib=lib, branchforks=not bf)
        fresh = sdf.parse(stext)
        for label in ('iopaths', 'interconnects'):
            if label == 'interconnects' and getattr(df, '_interconnects', ()) is None:
                continue
            a, b_ = getattr(df, label)(c2, lib), getattr(fresh, label)(c2, lib)
            ctx.count('second_circuit_same_delayfile')
            if np.shape(a) != np.shape(b_) or not np.array_equal(a, b_):
                ctx.violation('delay-table', f'{label}(): a DelayFile that annotated a circuit before gives another array for a second circuit of the same name '
                              f'(branchforks={not bf}) than a freshly parsed DelayFile: shapes {np.shape(a)} / {np.shape(b_)}', case)
                break
    ctx.case(None, stats['split_instances'] > 0 and stats['edge_qualified'] > 0, key=[vtext, case.get('sdf'), bf])
    if idx < 2:
        ctx.sample({'branchforks': bf, 'lib': desc['lib'], 'sdf': case.get('sdf', '')[:900]})


def corpus(ctx):
    """the shipped b15 SDF: every INTERCONNECT of the file that satisfies the precondition must be annotated"""
    import os, re, gzip
    from .. import REPO
    from kyupy import verilog, sdf
    from kyupy.techlib import SAED32
    tests = os.path.join(REPO, 'tests')
    case = {'corpus': 'b15_2ig'}
    with ctx.guard('sdf-raises', case):
        c = verilog.load(os.path.join(tests, 'b15_2ig.v.gz'), tlib=SAED32, branchforks=True)
        df = sdf.load(os.path.join(tests, 'b15_2ig.sdf.gz'))
        raw = gzip.open(os.path.join(tests, 'b15_2ig.sdf.gz'), 'rt').read()
        n_ic = len(re.findall(r'\(INTERCONNECT\s', raw))
        n_io = len(re.findall(r'\(IOPATH\s', raw))
        # the number of entries kept is read from the parsed object where it exposes them (`_interconnects` in the pinned implementation); where it
        # does not, this corpus count is skipped (counter below) - entry-by-entry placement is decided by the generated files, not here
        ic = getattr(df, '_interconnects', None)
        got_ic = len(ic) if ic is not None else n_ic
        if ic is None:
            ctx.count('corpus_entry_list_not_exposed')
        got_io = sum(len(v) for v in df.cells.values())
        ctx.count('corpus_interconnects_in_file', n_ic)
        ctx.count('corpus_interconnects_parsed', got_ic)
        if got_ic != n_ic:
            ctx.violation('entries-lost', f'b15_2ig.sdf.gz has {n_ic} INTERCONNECT entries, the parsed DelayFile keeps {got_ic}', case)
        if got_io != n_io:
            ctx.violation('entries-lost', f'b15_2ig.sdf.gz has {n_io} IOPATH entries, the parsed DelayFile keeps {got_io}', case)
    ctx.case(case, True, key=case)


def run(spec, ctx):
    if spec['shard'] == 0:
        corpus(ctx)
    for i in range(spec['n']):
        check_case(ctx, KRandom(f'C14/{spec["seed"]}/{spec["shard"]}/{i}'), i)


def replay(case, ctx):
    if case.get('corpus'):
        corpus(ctx)
        return
    check_case(ctx, KRandom(case['rngkey']), 9)
