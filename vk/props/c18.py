"""C18 - STIL patterns map scan data onto flip-flops by chain order and inversion."""
import random

import numpy as np

from .. import gen_circuit as G
from .. import ref_mv as R
from ..simutil import KRandom, parse_via

ID = 'C18'
TECHNIQUE = 'runtime monitoring: seeded scan circuits and TetraMAX-style STIL texts (own renderer) are parsed by the real parser; the arrays assembled by the real tests(), responses() and tests_loc() are compared cell by cell with the generator\'s expectation (chain order, cumulative inversion parity, signal-group mapping, row order, LoC transitions from an independent next-state evaluation)'
LEVEL_TEXT = ('Random scan circuits (1-3 chains of 1-12 cells, inversion markers anywhere incl. adjacent and at both ends, shuffled signal groups) with stuck-at style '
              '(load / capture / unload) and launch-on-capture style (load / launch / capture / unload, with and without clock pulses) pattern sets are rendered as '
              'STIL text with header, annotation, timing and procedure blocks, labels and line breaks inside strings. Every row of the real tests(), responses() '
              'and tests_loc() arrays is compared with the expectation derived from the chain description; LoC next states come from an own 8-valued evaluation '
              'of the netlist. Held on what was generated.')
LEVEL_NOTE = 'trusted: the chain/pattern description and renderer in this module, vk/gen_circuit.py + vk/ref_mv.py for next states'
DESIGN_REF = 'DESIGN.md section 3 C18'
LEVEL = 'exploration'
RULE = ('Cases: (scan circuit, chains with markers, signal-group orders, pattern set, style). Non-trivial iff at least one inversion marker lies strictly inside a chain of '
        '>= 3 cells. Distinct = digest of the STIL text + netlist.'
        ' One big set per shard (1025-2050 patterns, a chain of 130-270 cells); names differing only in case; texts reach the parser through parse() or the load() variants.')
ASSUMPTIONS = ["X and '-' are one class; clock rows (strings containing P) and rows whose expectation is unknown are not compared",
               'ScanCells are listed from scan-in to scan-out (as TetraMAX writes them); flip-flop kinds contain the upper-case substring DFF',
               'in LoC sets without a clock pulse in the capture call, data-input rows are not compared (the documented combination rule needs the capture pulse)']
REACH = {'stil.StilFile': ('stil.py', 28, 180), 'stil.transformer': ('stil.py', 181, 230)}


def plan(tier, seed):
    q = tier == 'quick'
    return [{'n': 200 if q else 5000} for _ in range(16)]


def conclude(agg):
    c = agg['counters']
    return [f'monitor counter {k} is zero' for k in ('files', 'cells_compared_tests', 'cells_compared_responses', 'cells_compared_loc', 'markers_inside', 'markers_adjacent',
                                                     'markers_at_end', 'loc_sets', 'sa_sets', 'loc_with_clock', 'loc_without_clock', 'inverted_cells', 'multi_chain', 'loc_capture_only', 'second_circuit_same_stilfile')
            if c.get(k, 0) == 0]


CH = {'0': 0, '1': 3, 'N': 2, 'X': 1, 'L': 0, 'H': 3, 'P': 4}


def gen_case(rng, big=False):
    nd = rng.randint(1, 4)
    nch = rng.choice([1, 1, 2, 3])
    data_in = [f'd{i}' for i in range(nd)]
    case_pairs = rng.random() < 0.3          # names that differ only in case are different names (STIL and Verilog are case sensitive)
    if case_pairs and nd >= 2:
        data_in[0], data_in[1] = 'en', 'EN'
    inputs = data_in + ['clk', 'se'] + [f'si{k}' for k in range(nch)]
    ffs = []
    chains = []
    k = 0
    for ch in range(nch):
        n = rng.randint(1, 12) if not (big and ch == 0) else rng.choice([130, 270])     # big: a scan chain longer than 127 / 255 cells
        cells = []
        for _ in range(n):
            fname = f'f{k}_reg' if not (case_pairs and k < 2) else ('r_reg', 'R_reg')[k]
            ffs.append({'name': fname, 'kind': rng.choice(['DFF', 'SDFFX1', 'DFF_X1']), 'q': fname, 'qn': None, 'd': None, 'ck': 'clk'})
            cells.append(fname)
            k += 1
        chains.append(cells)
    # interleave the creation order of flip-flops of different chains (row order != chain order)
    rng.shuffle(ffs)
    sigs = data_in + [ff['q'] for ff in ffs]
    gates = []
    for g in range(rng.randint(1, 12)):
        fam = rng.choice(['AND', 'OR', 'XOR', 'NAND', 'NOR', 'INV', 'MUX21', 'AO21'])
        ar = {'INV': 1, 'MUX21': 3, 'AO21': 3}.get(fam, 2)
        gates.append({'name': f'g{g}', 'kind': {'INV': 'INV1'}.get(fam, fam + (str(ar) if fam in G.VAR_FAMS else '')), 'fam': fam,
                      'ins': [rng.choice(sigs) for _ in range(ar)], 'out': f'g{g}'})
        sigs.append(f'g{g}')
    for ff in ffs:
        ff['d'] = rng.choice(sigs)
    outs = [{'name': f'o{i}', 'sig': rng.choice(sigs[nd:])} for i in range(rng.randint(1, 3))]
    for ch, cells in enumerate(chains):
        outs.append({'name': f'so{ch}', 'sig': cells[-1]})
    ports = inputs + [o['name'] for o in outs]
    if rng.random() < 0.5:
        rng.shuffle(ports)
    net = {'style': 'v', 'inputs': inputs, 'ffs': ffs, 'gates': gates, 'outputs': outs, 'wiring': {}, 'io_order': ports}
    # chain descriptions with markers: list of tokens from scan-in to scan-out
    chain_desc = []
    for ch, cells in enumerate(chains):
        toks = []
        for c in cells:
            while rng.random() < 0.25:
                toks.append('!')
            toks.append(c)
        while rng.random() < 0.25:
            toks.append('!')
        chain_desc.append({'name': str(ch + 1), 'si': f'si{ch}', 'so': f'so{ch}', 'tokens': toks})
    style = rng.choice(['sa', 'loc'])
    npat = rng.randint(1, 5) if not big else rng.choice([1025, 1100, 2050])                  # big: more than 1024 / 2048 patterns
    pi_group = list(inputs)
    po_group = [o['name'] for o in outs]
    rng.shuffle(pi_group)
    rng.shuffle(po_group)
    pats = []
    for _ in range(npat):
        p = {'load': {}, 'unload': {}}
        for cd in chain_desc:
            n = sum(1 for t in cd['tokens'] if t != '!')
            p['load'][cd['si']] = ''.join(rng.choice('01' if rng.random() < 0.85 else 'N') for _ in range(n))
            p['unload'][cd['so']] = ''.join(rng.choice('LH' if rng.random() < 0.8 else 'X') for _ in range(n))

        def pistr(clock):
            return ''.join(('P' if clock else '0') if s == 'clk' else rng.choice('01' if rng.random() < 0.9 else 'N') for s in pi_group)
        if style == 'sa':
            p['capture'] = {'_pi': pistr(rng.random() < 0.7), '_po': ''.join(rng.choice('LHX') for _ in po_group)}
        else:
            clocked = rng.random() < 0.7
            if rng.random() < 0.75:
                p['launch'] = {'_pi': pistr(clocked)}
                if rng.random() < 0.3:
                    p['launch']['_po'] = ''.join(rng.choice('LHX') for _ in po_group)
            # else: a capture-only pattern inside a launch-on-capture set (TetraMAX emits these, e.g. the chain test)
            p['capture'] = {'_pi': pistr(clocked if rng.random() < 0.8 else not clocked), '_po': ''.join(rng.choice('LHX') for _ in po_group)}
        pats.append(p)
    return {'net': net, 'chains': chain_desc, 'style': style, 'pi_group': pi_group, 'po_group': po_group, 'patterns': pats, 'rseed': rng.randrange(1 << 30)}


def render(case, rng):
    def brk(s):
        if len(s) > 6 and rng.random() < 0.3:
            k = rng.randrange(1, len(s))
            return s[:k] + '\n' + s[k:]
        return s
    L = []
    L.append('STIL 1.0 { Design 2005; }')
    L.append('Header {\n   Title "  generated STIL output";\n   Date "Mon Jan 1 00:00:00 2024";\n   History {\n      Ann {*  fault coverage  97.83% *}\n      Ann {* clock_name off usage *}\n   }\n}')
    sig = []
    for s in case['net']['inputs']:
        sig.append(f'"{s}" In' + (' { ScanIn; }' if s.startswith('si') else ';'))
    for o in case['net']['outputs']:
        sig.append(f'"{o["name"]}" Out' + (' { ScanOut; }' if o['name'].startswith('so') else ';'))
    L.append('Signals {\n   ' + ' '.join(sig) + '\n}')
    groups = [('_pi', case['pi_group']), ('_po', case['po_group']), ('all_inputs', case['net']['inputs']), ('_si', [c['si'] for c in case['chains']])]
    if rng.random() < 0.5:
        rng.shuffle(groups)
    gl = []
    for name, members in groups:
        txt = ' + '.join(f'"{m}"' for m in members)
        if rng.random() < 0.4 and len(members) > 2:
            txt = txt.replace(' + ', ' +\n   ', 1)
        extra = ' { ScanIn; }' if name == '_si' and rng.random() < 0.5 else ''
        gl.append(f'   "{name}" = \'{txt}\'{extra}; // #signals={len(members)}')
    L.append('SignalGroups {\n' + '\n'.join(gl) + '\n}')
    L.append('Timing {\n   WaveformTable "_default_WFT_" {\n      Period \'100ns\';\n      Waveforms {\n         "all_inputs" { 0 { \'0ns\' D; } }\n      }\n   }\n}')
    ch = []
    for cd in case['chains']:
        cells = ' '.join(t if t == '!' else f'"top.{t}.SI"' if rng.random() < 0.7 else f'"{t}"' for t in cd['tokens'])
        n = sum(1 for t in cd['tokens'] if t != '!')
        parts = [f'ScanLength {n};', f'ScanIn "{cd["si"]}";', f'ScanOut "{cd["so"]}";', 'ScanInversion 0;', f'ScanCells {cells};', 'ScanMasterClock "clk";']
        if rng.random() < 0.3:
            parts[1], parts[2] = parts[2], parts[1]
        ch.append(f'   ScanChain "{cd["name"]}" {{\n      ' + '\n      '.join(parts) + '\n   }')
    L.append('ScanStructures {\n' + '\n'.join(ch) + '\n}')
    L.append('PatternBurst "_burst_" {\n   PatList { "_pattern_" {\n   }\n}}')
    L.append('PatternExec {\n   PatternBurst "_burst_";\n}')
    L.append('Procedures {\n   "load_unload" {\n      W "_default_WFT_";\n      C { "all_inputs"=0; }\n      Shift { V { "_si"=#; } }\n   }\n}')
    L.append('MacroDefs {\n   "test_setup" {\n      W "_default_WFT_";\n      V { "clk"=0; }\n   }\n}')
    P = ['Pattern "_pattern_" {', '   W "_default_WFT_";', f'   "precondition all Signals": C {{ "_pi"=\\r{len(case["pi_group"])} 0 ; }}', '   Macro "test_setup";']
    cap = 'multiclock_capture' if case['style'] == 'sa' else 'allclock_capture'
    prev = None
    for k, p in enumerate(case['patterns']):
        if rng.random() < 0.4:
            P.append('   Ann {* fast_sequential *}')
        params = []
        if prev is not None:
            params += [f'"{so}"={brk(v)};' for so, v in prev['unload'].items()]
        params += [f'"{si}"={brk(v)};' for si, v in p['load'].items()]
        P.append(f'   "pattern {k}": Call "load_unload" {{ \n      ' + ' \n      '.join(params) + ' }')
        if 'launch' in p:
            P.append('   Call "allclock_launch" { \n      ' + ' '.join(f'"{g}"={v};' for g, v in p['launch'].items()) + ' }')
        P.append(f'   Call "{cap}" {{ \n      ' + ' '.join(f'"{g}"={v};' for g, v in p['capture'].items()) + ' }')
        prev = p
    P.append(f'   "end {len(case["patterns"])} unload": Call "load_unload" {{ \n      ' + ' '.join(f'"{so}"={brk(v)};' for so, v in prev['unload'].items()) + ' }')
    P.append('}')
    L.append('\n'.join(P))
    if rng.random() < 0.6:      # otherwise the text ends with the closing brace of the pattern block
        L.append('// Patterns reference ' + str(len(case['patterns'])) + ' V statements')
    return '\n'.join(L) + '\n'


def expectations(case, b):
    """-> (tests, responses, loc or None, compare masks) as lists of rows of codes (None = not compared)"""
    net = case['net']
    rows = {name: i for i, (kind, name) in enumerate(b.s_order)}
    nrow = len(b.s_order)
    npat = len(case['patterns'])
    tests = [[2] * npat for _ in range(nrow)]
    resp = [[2] * npat for _ in range(nrow)]
    skip_t = set()       # (row, pattern) cells not compared
    stats = dict(markers_inside=0, markers_adjacent=0, markers_at_end=0, inverted_cells=0)
    chain_info = []
    for cd in case['chains']:
        toks = cd['tokens']
        cells = [t for t in toks if t != '!']
        # parity of markers between scan-in and the cell / between the cell and scan-out
        inv_in, inv_out = {}, {}
        par = 0
        for t in toks:
            if t == '!':
                par ^= 1
            else:
                inv_in[t] = par
        par = 0
        for t in reversed(toks):
            if t == '!':
                par ^= 1
            else:
                inv_out[t] = par
        chain_info.append((cd, cells, inv_in, inv_out))
        for i, t in enumerate(toks):
            if t == '!':
                if i + 1 < len(toks) and toks[i + 1] == '!':
                    stats['markers_adjacent'] += 1
                if i == 0 or i == len(toks) - 1:
                    stats['markers_at_end'] += 1
                elif len(cells) >= 3 and any(x != '!' for x in toks[:i]) and any(x != '!' for x in toks[i + 1:]):
                    stats['markers_inside'] += 1
        stats['inverted_cells'] += sum(inv_in.values()) + sum(inv_out.values())

    def flip(v, par):
        return (3 - v) if (par and v in (0, 3)) else v
    loaded = [dict() for _ in range(npat)]
    for pi_, p in enumerate(case['patterns']):
        for cd, cells, inv_in, inv_out in chain_info:
            from_so = list(reversed(cells))
            for i, chv in enumerate(p['load'][cd['si']]):
                cell = from_so[i]
                v = flip(CH[chv], inv_in[cell])
                tests[rows[cell]][pi_] = v
                loaded[pi_][cell] = v
            for i, chv in enumerate(p['unload'][cd['so']]):
                cell = from_so[i]
                resp[rows[cell]][pi_] = R.v_xor(CH[chv], 3 if inv_out[cell] else 0) if CH[chv] in (0, 3) else 1
        for j, s in enumerate(case['pi_group']):
            tests[rows[s]][pi_] = CH[p['capture']['_pi'][j]]
            if 'P' in p['capture']['_pi'] and s == 'clk':
                skip_t.add((rows[s], pi_))
        po = p['capture'].get('_po') or p.get('launch', {}).get('_po')
        for j, s in enumerate(case['po_group']):
            resp[rows[s]][pi_] = CH[po[j]]
    loc = None
    skip_l = set()
    if case['style'] == 'loc':
        loc = [[2] * npat for _ in range(nrow)]
        for pi_, p in enumerate(case['patterns']):
            cpi = p['capture']['_pi']
            lpi = p['launch']['_pi'] if 'launch' in p else cpi      # without a launch call the initialisation comes from the capture call
            if 'launch' not in p:
                stats['loc_capture_only'] = stats.get('loc_capture_only', 0) + 1
            init = {}
            for j, s in enumerate(case['pi_group']):
                init[s] = CH[lpi[j]]
            for ff in net['ffs']:
                init[ff['name']] = loaded[pi_][ff['name']]
            val = G.eval_net_mv(net, {k: [v] for k, v in init.items()}, 1)
            nxt = {ff['name']: val[ff['d']][0] for ff in net['ffs']}
            clocked = 'launch' in p and 'P' in lpi and 'P' in cpi
            for ff in net['ffs']:
                a = init[ff['name']]
                f = nxt[ff['name']] if clocked else a
                loc[rows[ff['name']]][pi_] = transition(a, f)
            for j, s in enumerate(case['pi_group']):
                r = rows[s]
                if s == 'clk' or 'P' not in cpi:
                    skip_l.add((r, pi_))
                    continue
                loc[r][pi_] = transition(CH[lpi[j]], CH[cpi[j]])
            for s in case['po_group']:
                loc[rows[s]][pi_] = 2
    return tests, resp, loc, skip_t, skip_l, stats


def transition(a, f):
    """documented combination: unknown if either side has no binary value, both unassigned stays unassigned"""
    if a == 2 and f == 2:
        return 2
    if a in (1, 2) or f in (1, 2):
        return 1
    ia, ff = (a >> 1) & 1, f & 1
    return R.enc(ia, ff, ia ^ ff)


def check_case(ctx, case, idx):
    from kyupy import stil
    rng = random.Random(case['rseed'])
    text = render(case, rng)
    wit = {'stil': text, 'netlist': G.net_text(case['net']), 'style': case['style'], 'rngkey': case.get('rngkey'), 'big': bool(case.get('big'))}
    with ctx.guard('stil-raises', wit):
        b = G.build(case['net'])
        tests, resp, loc, skip_t, skip_l, stats = expectations(case, b)
        sf = parse_via(stil, text, rng, ctx)
        ctx.count('files')
        ctx.count(case['style'] + '_sets')
        for k, v in stats.items():
            ctx.count(k, v)
        if len(case['chains']) > 1:
            ctx.count('multi_chain')
        names = [name for _, name in b.s_order]

        def cmp(label, got, exp, skip, counter):
            nonlocal names
            got = np.asarray(got)
            if got.shape != (len(exp), len(exp[0])):
                ctx.violation('pattern-array-shape', f'{label}() shape {got.shape}, expected {(len(exp), len(exp[0]))} = (ports + flip-flops, patterns)', wit)
                return False
            for r, row in enumerate(exp):
                for p, e in enumerate(row):
                    if (r, p) in skip:
                        continue
                    ctx.count(counter)
                    g = int(got[r, p])
                    if R.canon(g) != R.canon(e):
                        ctx.violation('pattern-mapping', f'{label}()[{names[r]}, pattern {p}] = {R.CHARS[g]}, expected {R.CHARS[e]} '
                                      f'(chains: {[(c["si"], c["tokens"], c["so"]) for c in case["chains"]]})', wit)
                        return False
            return True
        ok = cmp('tests', sf.tests(b.c), tests, skip_t, 'cells_compared_tests')
        ok = ok and cmp('responses', sf.responses(b.c), resp, set(), 'cells_compared_responses')
        # the same object asked again (state carried between calls must not matter)
        ok = ok and cmp('tests (second call)', sf.tests(b.c), tests, skip_t, 'cells_compared_tests')
        ok = ok and cmp('responses (second call)', sf.responses(b.c), resp, set(), 'cells_compared_responses')
        if ok and case['rseed'] % 3 == 0:
            net2 = dict(case['net'])
            r2 = random.Random(case['rseed'] + 1)
            net2['io_order'] = list(case['net']['io_order'])
            r2.shuffle(net2['io_order'])
            net2['ffs'] = list(case['net']['ffs'])
            r2.shuffle(net2['ffs'])
            case2 = dict(case, net=net2)
            b2 = G.build(net2)
            t2, rsp2, loc2, sk2, skl2, _ = expectations(case2, b2)
            names_save = names
            names = [name for _, name in b2.s_order]
            ctx.count('second_circuit_same_stilfile')
            ok = cmp('tests (second circuit, same StilFile)', sf.tests(b2.c), t2, sk2, 'cells_compared_tests')
            ok = ok and cmp('responses (second circuit, same StilFile)', sf.responses(b2.c), rsp2, set(), 'cells_compared_responses')
            names = names_save
        if ok and loc is not None:
            clk = sum(1 for p in case['patterns'] if 'launch' in p and 'P' in p['launch']['_pi'] and 'P' in p['capture']['_pi'])
            ctx.count('loc_with_clock', clk)
            ctx.count('loc_without_clock', len(case['patterns']) - clk)
            if cmp('tests_loc', sf.tests_loc(b.c), loc, skip_l, 'cells_compared_loc'):
                cmp('tests_loc (second call)', sf.tests_loc(b.c), loc, skip_l, 'cells_compared_loc')
    ctx.case(None, stats['markers_inside'] > 0, key=[text, wit['netlist']])
    if idx < 2:
        ctx.sample({'style': case['style'], 'chains': [(c['si'], c['tokens'], c['so']) for c in case['chains']], 'stil_excerpt': text[-700:]})


def run(spec, ctx):
    for i in range(spec['n']):
        rng = KRandom(f'C18/{spec["seed"]}/{spec["shard"]}/{i}')
        big = (i == 1)
        if big:
            ctx.count('big_pattern_sets')
        check_case(ctx, dict(gen_case(rng, big=big), rngkey=rng.key, big=big), i)


def replay(case, ctx):
    rng = KRandom(case['rngkey'])
    check_case(ctx, dict(gen_case(rng, big=bool(case.get('big'))), rngkey=rng.key, big=bool(case.get('big'))), 9)
