"""C02 - 4-/8-valued simulation follows the documented algebra and is X-sound."""
import itertools
import random

import numpy as np

from .. import gen_circuit as G
from .. import ref_mv as R
from ..enc import to_bp, from_bp, v2s
from ..simutil import lanes_mask

ID = 'C02'
TECHNIQUE = 'runtime monitoring: real LogicSim(m=4/8) runs checked per lane against the gate-by-gate composition of an independent algebra model, plus completion (X-soundness) and initial/final-component oracles'
LEVEL_TEXT = ('The all-primitives circuit is simulated with all 4^4 and 8^4 input combinations (exhaustive depth-1 algebra of all 33 primitives in both '
              'propagation branches); seeded deep circuits with random 4-/8-valued vectors, odd batch sizes and all option settings are compared at every '
              'port, state input and (reuse off) internal line with the documented operator composition; binary results under unknown inputs are checked '
              'against all (<=64) 0/1 completions; 8-valued initial/final components against 2-valued evaluation. Held on what was generated.')
LEVEL_NOTE = 'trusted: vk/ref_mv.py (self-checked against the published tables), vk/gen_circuit.py evaluators, vk/enc.py'
DESIGN_REF = 'DESIGN.md section 3 C02'
LEVEL = 'exploration'
RULE = ('Cases: (circuit, m in {4,8}, options, batch size, vector seed) from the seeded generator of C01 plus the all-primitives circuit with every '
        'input combination as a lane. Non-trivial iff the stimulus contains >= 1 unknown/unassigned value and the circuit evaluates >= 1 compound '
        'primitive (AO/OA/AOI/OAI/MUX). Distinct = digest of (netlist text, m, options, batch size, vector seed).'
        " Two large cases per shard (200-450 gates, 129-520 patterns); a re-used simulator's earlier assignment shares a random subset of bit planes with the new one.")
ASSUMPTIONS = ["X and '-' are one class in comparisons", 'unconnected pins read constant 0',
               'completions are enumerated exhaustively up to 6 unknown sources per lane, else 64 random ones']
REACH = {'logic_sim.m4': ('logic_sim.py', 109, 184), 'logic_sim.m8': ('logic_sim.py', 184, 260), 'logic.bp_ops': ('logic.py', 283, 388)}
REACH_TEXT = {'m4-mux': ('logic_sim.py', 'logic.bp4v_not(self.c[t1], self.c[i2])'), 'm8-mux': ('logic_sim.py', 'logic.bp8v_not(self.c[t1], self.c[i2])')}

FEATS = ['unconn_in', 'unconn_out', 'ff_no_d', 'out_read', 'wiring', 'consts', 'floating', 'ff_unread']
COMPOUND = set(G.FIX_FAMS)


def plan(tier, seed):
    if tier == 'quick':
        return [{'n': 60, 'allprims': (i < 4)} for i in range(16)]
    return [{'n': 2500, 'allprims': (i < 4)} for i in range(16)]


def conclude(agg):
    c = agg['counters']
    r = []
    if c.get('selfcheck_bad', 0):
        r.append('algebra model disagrees with the published tables')
    for m in (4, 8):
        if len(agg['sets'].get(f'prims_m{m}', ())) < 33:
            r.append(f'm={m}: only {len(agg["sets"].get(f"prims_m{m}", ()))} of 33 primitives executed')
        if c.get(f'allprims_lanes_m{m}', 0) < (256 if m == 4 else 4096):
            r.append(f'm={m}: exhaustive all-primitives run missing')
    for k in ('lane_checks', 'internal_line_checks', 'binary_under_unknown', 'completions_checked', 'initfinal_checks', 'reached/m4-mux', 'reached/m8-mux', 'reused_simulator_cases'):
        if c.get(k, 0) == 0:
            r.append(f'monitor counter {k} is zero')
    return r


def gen_case(rng, spec, idx):
    if spec.get('allprims') and idx < 2:
        m = 4 if idx == 0 else 8
        return {'net': G.all_prims_net('v'), 'm': m, 'c_reuse': spec['shard'] % 2 == 1, 'strip_forks': spec['shard'] // 2 % 2 == 1,
                'sims': (256 if m == 4 else 4096), 'vec': 'exh', 'vseed': 0, 'allprims': True}
    feats = [f for f in FEATS if rng.random() < 0.3]
    if idx in (2, 3):
        # beyond the usual sizes: hundreds of gates, deep or wide, dozens of state elements, more than 256 patterns
        net = G.gen_net(rng, feats=feats, n_gates=rng.choice([200, 450]), n_in=rng.choice([2, 10, 30]), n_ff=rng.choice([0, 9, 36]), n_out=rng.choice([3, 20]))
        return {'net': net, 'm': rng.choice([4, 8]), 'c_reuse': rng.random() < 0.5, 'strip_forks': rng.random() < 0.4, 'sims': rng.choice([129, 257, 300, 520]),
                'vec': 'rand', 'vseed': rng.randrange(1 << 30), 'feats': feats, 'punk': rng.choice([0.0, 0.1, 0.3]), 'reuse_sim': rng.random() < 0.3, 'large': True}
    net = G.gen_net(rng, feats=feats, max_gates=rng.choice([12, 30, 60]))
    return {'net': net, 'm': rng.choice([4, 8]), 'c_reuse': rng.random() < 0.5, 'strip_forks': rng.random() < 0.4,
            'sims': rng.choice([1, 3, 8, 9, 17, 33, 64, 67, rng.randint(1, 67)]), 'vec': 'rand', 'vseed': rng.randrange(1 << 30), 'feats': feats,
            'punk': rng.choice([0.0, 0.1, 0.3, 0.6]), 'reuse_sim': rng.random() < 0.3}


def stimulus(case):
    net = case['net']
    srcs = net['inputs'] + [ff['name'] for ff in net['ffs']]
    n = case['sims']
    alpha = 4 if case['m'] == 4 else 8
    if case['vec'] == 'exh':
        combos = list(itertools.product(range(alpha), repeat=len(srcs)))
        assert len(combos) == n
        return {s: [t[k] for t in combos] for k, s in enumerate(srcs)}
    r = random.Random(case['vseed'])
    punk = case.get('punk', 0.2)
    known = [0, 3] if alpha == 4 else [0, 3, 4, 5, 6, 7]
    out = {}
    for s in srcs:
        out[s] = [(r.choice([1, 2]) if r.random() < punk else r.choice(known)) for _ in range(n)]
    return out


def check_case(case, ctx):
    from kyupy.logic_sim import LogicSim
    net, m, n = case['net'], case['m'], case['sims']
    planes = 2 if m == 4 else 3
    assign = stimulus(case)
    has_unk = any(v in (1, 2) for col in assign.values() for v in col)
    has_compound = any(g['fam'] in COMPOUND for g in net['gates'])
    ctx.case(case, has_unk and has_compound, key=[G.net_text(net), m, case['c_reuse'], case['strip_forks'], n, case['vec'], case['vseed']])
    for g in net['gates']:
        ctx.hit(f'prims_m{m}', G.canonical(g['fam'], g['ins'])[0])
    ctx.count(f'cases/m{m}')
    if case.get('large'):
        ctx.count('large_cases')
    ctx.count('cases/c_reuse', case['c_reuse'])
    ctx.count('cases/strip_forks', case['strip_forks'])
    val = G.eval_net_mv(net, assign, n, four=(m == 4))
    zero = [0] * n
    exp = {}
    for o in net['outputs']:
        exp[('out', o['name'])] = val[o['sig']]
    for ff in net['ffs']:
        exp[('ff', ff['name'])] = val[ff['d']] if ff['d'] is not None else zero
    with ctx.guard('simulation-raises', case):
        b = G.build(net)
        sim = LogicSim(b.c, sims=n, m=m, c_reuse=case['c_reuse'], strip_forks=case['strip_forks'])
        rows = []
        for kind, name in b.s_order:
            rows.append(assign[name] if kind != 'out' else [2] * n)
        bp = to_bp(np.array(rows, dtype=np.uint8), 3)
        if case.get('reuse_sim'):
            # the simulator object was used before with another assignment (as in pattern batches): nothing may carry over
            r0 = random.Random(case['vseed'] ^ 0x77)
            # ... also when the earlier assignment agrees with the new one in some of the bit planes (only the others differ)
            keep = r0.choice([0, 0, 1, 2, 4, 3, 5, 6])
            prev = np.array([[r0.randrange(4 if m == 4 else 8) for _ in range(n)] for _ in b.s_order], dtype=np.uint8)
            cur = np.array(rows, dtype=np.uint8)
            prev = (prev & ~np.uint8(keep)) | (cur & np.uint8(keep))
            if m == 4:
                prev &= 3
            ctx.count(f'reused_simulator_planes_kept/{keep}')
            sim.s[0] = to_bp(prev, 3)
            sim.s_to_c()
            sim.c_prop()
            sim.c_to_s()
            ctx.count('reused_simulator_cases')
        sim.s[0] = bp
        sim.s_to_c()
        sim.c_prop()
        sim.c_to_s()
        got_all = from_bp(sim.s[1][:, :planes, :], n)
        bad = False
        for row, (kind, name) in enumerate(b.s_order):
            if kind == 'in':
                continue
            got = [int(x) for x in got_all[row]]
            e = exp[(kind, name)]
            ctx.count('lane_checks', n)
            for lane in range(n):
                if R.canon(got[lane]) != R.canon(e[lane]):
                    srcs = {s: R.CHARS[assign[s][lane]] for s in assign}
                    ctx.violation('captured-value', f'm={m} {kind} {name} lane {lane}: simulator {R.CHARS[got[lane]]}, documented algebra {R.CHARS[e[lane]]}; '
                                  f'inputs {srcs}; reuse={case["c_reuse"]} strip={case["strip_forks"]}; {G.net_text(net)[:500]}', case)
                    bad = True
                    break
            if bad:
                break
        if not case['c_reuse'] and not bad:
            for li, sig in b.line_sig.items():
                loc = int(sim.c_locs[li])
                got = from_bp(sim.c[loc][None, :planes, :], n)[0]
                ctx.count('internal_line_checks', n)
                e = val[sig]
                for lane in range(n):
                    if R.canon(int(got[lane])) != R.canon(e[lane]):
                        ctx.violation('internal-line', f'm={m} line {li} carrying {sig} lane {lane}: simulator {R.CHARS[int(got[lane])]}, algebra {R.CHARS[e[lane]]}; {G.net_text(net)[:500]}', case)
                        bad = True
                        break
                if bad:
                    break
        if case.get('allprims'):
            ctx.count(f'allprims_lanes_m{m}', n)
        if bad:
            return
        soundness(case, ctx, net, assign, got_all, b, m, n)
    ctx.sample({'netlist': G.net_text(net)[:600], 'm': m, 'sims': n, 'c_reuse': case['c_reuse'], 'strip_forks': case['strip_forks'],
                'vectors': {s: v2s(col[:16]) for s, col in list(assign.items())[:6]}})


def soundness(case, ctx, net, assign, got_all, b, m, n):
    """(a) binary results under unknown inputs vs 0/1 completions, (b) 8-valued init/final vs 2-valued evaluation."""
    srcs = list(assign)
    rng = random.Random(case['vseed'] ^ 0xC02)
    obs_rows = [(row, kind, name) for row, (kind, name) in enumerate(b.s_order) if kind != 'in']
    lanes = list(range(n))
    if n > 40:
        lanes = rng.sample(lanes, 40)
    for lane in lanes:
        unk = [s for s in srcs if assign[s][lane] in (1, 2)]
        # components per source: init / final as 0/1 (known sources)
        if len(unk) <= 6:
            comps = list(itertools.product((0, 1), repeat=len(unk)))
        else:
            comps = [tuple(rng.getrandbits(1) for _ in unk) for _ in range(64)]
        nc = len(comps)
        mask = lanes_mask(nc)
        for comp_name, shift in (('final', 0), ('initial', 1)):
            if m == 4 and comp_name == 'initial':
                continue     # 4-valued: one binary value per signal (bit0 == bit1 when known)
            a2 = {}
            for s in srcs:
                v = assign[s][lane]
                if v in (1, 2):
                    k = unk.index(s)
                    bits = 0
                    for ci, cmpl in enumerate(comps):
                        if cmpl[k]:
                            bits |= 1 << ci
                    a2[s] = bits
                else:
                    a2[s] = mask if (v >> shift) & 1 else 0
            v2 = G.eval_net(net, a2, mask)
            e2 = G.observed(net, v2)
            for row, kind, name in obs_rows:
                g = int(got_all[row][lane])
                if g in (1, 2):
                    continue
                if unk:
                    ctx.count('binary_under_unknown')
                    ctx.count('completions_checked', nc)
                else:
                    ctx.count('initfinal_checks')
                want = mask if (g >> shift) & 1 else 0
                if e2[(kind, name)] != want:
                    which = 'completion of the unknown inputs' if unk else '2-valued evaluation'
                    ctx.violation('x-soundness' if unk else 'initial-final-component',
                                  f'm={m} {kind} {name} lane {lane}: result {R.CHARS[g]} but its {comp_name} component is contradicted by a {which} '
                                  f'(inputs { {s: R.CHARS[assign[s][lane]] for s in srcs} }); {G.net_text(net)[:500]}', case)
                    return


def run(spec, ctx):
    bad = R.self_check()
    if bad:
        ctx.count('selfcheck_bad', len(bad))
        return
    for i in range(spec['n']):
        rng = random.Random(f'C02/{spec["seed"]}/{spec["shard"]}/{i}')
        check_case(gen_case(rng, spec, i), ctx)


def replay(case, ctx):
    check_case(case, ctx)
