"""C06 - results do not depend on performance options, lane position or code path."""
import random

import numpy as np

from .. import gen_circuit as G
from .. import wave as W
from .. import wavecase as WC

ID = 'C06'
TECHNIQUE = 'runtime monitoring: pairwise differential execution of the real simulators under configurations that must agree (c_reuse, strip_forks, CPU vs GPU-kernel path, allocation size, lane permutation, sims=k, delay-dataset selection, LogicSim plain vs callback path), bit-wise comparison of port-level arrays'
LEVEL_TEXT = ('For every seeded (circuit, delays, stimulus) the real simulators are executed under pairs of configurations the property says are equivalent and the '
              'port-level result arrays (and the whole signal memory where both keep it) are compared bit for bit; each pair kind is counted. Held on what was generated.')
LEVEL_NOTE = 'trusted: numpy array comparison; the oracle is the other configuration of the same real code (C01/C03 anchor the absolute values)'
DESIGN_REF = 'DESIGN.md section 3 C06'
LEVEL = 'exploration'
RULE = ('Cases: (circuit, delays with 1-4 datasets, stimulus, capacities) x the pair kinds a-h of DESIGN.md C06. Non-trivial iff the two configurations of at least '
        'one pair differ in memory size or operation count (i.e. the option had an effect). Distinct = digest of all case fields.'
        ' Also: a restricted propagation followed by a full one on the same simulator (both paths), capture exactly at a transition time, primary-input rows after s_ppo_to_ppi, 49 and 70 lanes.')
ASSUMPTIONS = ['the strip_forks pair uses one uniform capacity (a stripped branch inherits its stem\'s capacity, so per-line capacities legitimately change overflow behaviour)',
               'sd = 0 (no random capture) and delay-selection modes 0 and 1 only, as the property names them',
               'strip_forks pairs zero the delays of lines that feed forks in both runs (the documented precondition)']
REACH = {'sim.reuse': ('sim.py', 285, 315), 'wave_sim.gpu': ('wave_sim.py', 398, 516), 'wave_sim.datasets': ('wave_sim.py', 165, 177)}
REACH_TEXT = {'dataset-mode0': ('wave_sim.py', 'delays = delays[seed]'), 'dataset-mode1': ('wave_sim.py', 'delays = delays[simctl_int[0]]')}

PAIRS = ['reuse', 'strip', 'gpu', 'gpu_ppo_to_ppi', 'gpu_memory', 'alloc_size', 'lane_perm', 'sims_k', 'dataset_mode0', 'dataset_mode1', 'capture_time',
         'logic_reuse', 'logic_strip', 'logic_callback_path']


def plan(tier, seed):
    q = tier == 'quick'
    return [{'n': 80 if q else 1600} for _ in range(16)]


def conclude(agg):
    c = agg['counters']
    r = [f'pair kind {k} was never compared' for k in PAIRS if c.get('pairs/' + k, 0) == 0]
    r += [f'monitor counter {k} is zero' for k in ('effective_pairs', 'reached/dataset-mode0', 'reached/dataset-mode1', 'reused_gpu_cpu_pairs', 'restricted_then_full') if c.get(k, 0) == 0]
    return r


def fork_input_lines(c):
    return [n.ins[0].index for n in c.nodes if n.kind == '__fork__' and len(n.ins) > 0 and n.ins[0] is not None]


def check_case(case, ctx):
    from kyupy.logic_sim import LogicSim
    r = WC.materialize(case)
    net, b, n = r.net, r.b, r.sims
    rr = random.Random(case['stim_seed'] ^ 0xC06)
    nrng = np.random.default_rng(case['stim_seed'])
    nd = r.delays.shape[0]
    d0 = r.delays[0]
    effective = 0

    def fail(pair, msg):
        ctx.violation('config-pair/' + pair, f'{msg}; caps={case["caps"]} sims={n}; {G.net_text(net)[:400]}', dict(case, pair=pair))

    def eq(pair, a, b_, what):
        ctx.count('pairs/' + pair)
        if a.shape != b_.shape or not np.array_equal(a, b_):
            idx = tuple(int(x[0]) for x in np.nonzero(a != b_)) if a.shape == b_.shape else ()
            fail(pair, f'{what} differ at index {idx}: {a[idx] if idx else a.shape} vs {b_[idx] if idx else b_.shape}')
            return False
        return True

    def run(cls='cpu', reuse=False, strip=False, delays=None, sims=None, stim_perm=None, prop_kw=None, time=None, simctl=None, caps=None):
        sim = WC.make_sim(r, cls=cls, c_reuse=reuse, strip_forks=strip, delays=d0 if delays is None else delays, sims=sims, caps=caps)
        if simctl is not None:
            sim.simctl_int[0] = simctl[0]
            sim.simctl_int[1] = simctl[1]
        else:
            sim.simctl_int[1] = 0
        stim = r.stim if stim_perm is None else {s: [r.stim[s][p] for p in stim_perm] for s in r.stim}
        if sims and sims > n:
            stim = {s: stim[s] + [(0, [])] * (sims - n) for s in stim}
        W.apply_stim(sim, b, stim)
        sim.c_prop(**(prop_kw or {}))
        if time is None:
            sim.c_to_s()
        else:
            sim.c_to_s(time=time)
        return sim

    with ctx.guard('simulation-raises', case):
        ref = run()
        rs, rc = np.asarray(ref.s).copy(), np.asarray(ref.c).copy()
        # (a) memory reuse
        x = run(reuse=True)
        if not eq('reuse', np.asarray(x.s)[3:], rs[3:], 'captured results with/without c_reuse'):
            return
        effective += int(x.c_len != ref.c_len)
        # (b) strip_forks with zero delay on fork inputs
        dz = d0.copy()
        fl = fork_input_lines(b.c)
        if fl:
            dz[fl] = 0
        # a stripped branch takes the capacity of its stem: compare under one uniform capacity
        ucap = case['caps'] if isinstance(case['caps'], int) else 16
        y0, y1 = run(delays=dz, caps=ucap), run(delays=dz, strip=True, reuse=case['c_reuse'], caps=ucap)
        ctx.count('pairs/strip')
        if not np.array_equal(np.asarray(y1.s)[3:], np.asarray(y0.s)[3:]):
            # open finding C06/fork-filters-zero-width-pulse: an evaluated fork is a BUF with zero delay, whose pulse filter removes
            # non-increasing timestamp pairs that polarity-dependent delays can leave on its stem; a stripped fork passes them on.
            # Attributed only if (i) such a pair exists on a fork input in the unstripped run and (ii) the same pair of runs with the
            # delays made polarity independent (timestamps then strictly increase, C04) agrees.
            finding = None
            cu = np.asarray(y0.c)
            nonmono = False
            for li in fl:
                loc, cap = int(y0.c_locs[li]), int(y0.c_caps[li])
                for lane in range(n):
                    _, ts, _ = W.decode_col(cu[loc:loc + cap, lane])
                    if any(t1 <= t0 for t0, t1 in zip(ts, ts[1:])):
                        nonmono = True
            if nonmono:
                dp = dz.copy()
                dp[:] = dp[:, :1, :1]
                p0, p1 = run(delays=dp, caps=ucap), run(delays=dp, strip=True, reuse=case['c_reuse'], caps=ucap)
                if np.array_equal(np.asarray(p1.s)[3:], np.asarray(p0.s)[3:]):
                    finding = 'fork-filters-zero-width-pulse'
            idx = tuple(int(x[0]) for x in np.nonzero(np.asarray(y1.s)[3:] != np.asarray(y0.s)[3:]))
            ctx.violation('config-pair/strip', f'captured results with/without strip_forks (fork input delays zero) differ at s[3:]{list(idx)}: '
                          f'{np.asarray(y1.s)[3:][idx]} vs {np.asarray(y0.s)[3:][idx]}; non-increasing timestamps on a fork input: {nonmono}; caps={ucap} sims={n}; '
                          f'{G.net_text(net)[:400]}', dict(case, pair='strip'), finding=finding, sig='strip-zero-width' if finding else 'config-pair/strip')
            if finding is None:
                return
        effective += int(len(y1.ops) != len(y0.ops))
        # (c) CPU vs GPU-kernel path
        g = run(cls='cuda', reuse=case['c_reuse'], strip=case['strip_forks'])
        gref = run(reuse=case['c_reuse'], strip=case['strip_forks'])
        if rr.random() < 0.5:
            # both objects are used again with the real stimulus after an unrelated one (what an earlier batch left behind must not matter)
            other = WC.materialize(dict(case, stim_seed=case['stim_seed'] + 17, multi=True), b=b).stim
            for sim_ in (g, gref):
                W.apply_stim(sim_, b, other); sim_.c_prop(); sim_.c_to_s()
                W.apply_stim(sim_, b, r.stim); sim_.c_prop(); sim_.c_to_s()
            ctx.count('reused_gpu_cpu_pairs')
            if not eq('gpu', np.asarray(gref.s)[3:], rs[3:] if not (case['c_reuse'] or case['strip_forks']) else np.asarray(gref.s)[3:], 'results of a re-used WaveSim vs a fresh one'):
                return
        if not eq('gpu', np.asarray(g.s)[3:], np.asarray(gref.s)[3:], 'captured results of WaveSim and WaveSimCuda'):
            return
        if not case['c_reuse']:
            # waveforms (entries up to each terminator) of every slot except the scratch slot; padding rows and stale content behind terminators are unspecified
            ctx.count('pairs/gpu_memory')
            if not W.same_waveforms(g, g.c, gref, gref.c, skip_idx=(gref.tmp_idx,)):
                fail('gpu_memory', 'waveforms in the signal memories of WaveSim and WaveSimCuda differ')
                return
        else:
            ctx.count('pairs/gpu_memory', 0)
        t = rr.choice([0.0, 1.5, 7.25])
        g.s_ppo_to_ppi(time=t)
        gref.s_ppo_to_ppi(time=t)
        # state elements that nobody reads have no input slot: what is transferred to their rows is immaterial (the GPU path skips them)
        # (primary-input rows are compared too: transferring captured state to the state elements must leave the input stimulus alone on both paths)
        ff_rows = [i for i, (k, _) in enumerate(b.s_order) if k in ('ff', 'in') and int(np.asarray(gref.c_locs)[gref.ppi_offset + i]) >= 0]
        if not eq('gpu_ppo_to_ppi', np.asarray(g.s)[0:3][:, ff_rows], np.asarray(gref.s)[0:3][:, ff_rows], 'state rows of s[0:3] after s_ppo_to_ppi'):
            return
        # (d) allocation size
        big = run(sims=n + rr.randint(1, 9))
        if not eq('alloc_size', np.asarray(big.s)[3:, :, :n], rs[3:], f'results with {big.sims} instead of {n} allocated simulations'):
            return
        # (e) lane permutation
        perm = [int(p) for p in nrng.permutation(n)]
        pp = run(stim_perm=perm)
        if not eq('lane_perm', np.asarray(pp.s)[3:], rs[3:][:, :, perm], 'results after permuting the lanes of the stimulus'):
            return
        effective += int(perm != sorted(perm))
        # (f) propagation restricted to the first k lanes
        k = rr.randint(1, n)
        kk = run(prop_kw={'sims': k})
        if not eq('sims_k', np.asarray(kk.s)[3:, :, :k], rs[3:, :, :k], f'lanes < {k} of c_prop(sims={k})'):
            return
        # (f2) a restricted propagation followed by a full one on the same simulator (CPU and GPU path): the full one covers all lanes again
        for cls_ in ('cpu', 'cuda'):
            k2 = rr.randint(1, max(1, min(n - 1, 4)))
            sim2 = run(cls=cls_, prop_kw={'sims': k2})
            W.apply_stim(sim2, b, r.stim)
            sim2.c_prop()
            sim2.c_to_s()
            ctx.count('restricted_then_full')
            if not eq('sims_k', np.asarray(sim2.s)[3:], rs[3:], f'full c_prop() after c_prop(sims={k2}) on the same {cls_} simulator'):
                return
        # (g) delay datasets
        if nd > 1:
            ds = rr.randrange(nd)
            alone = run(delays=r.delays[ds])
            for cls_ in ('cpu', 'cuda'):
                m0 = run(cls=cls_, delays=r.delays, prop_kw={'seed': ds}, simctl=(0, 0))
                if not eq('dataset_mode0', np.asarray(m0.s)[3:], np.asarray(alone.s)[3:], f'global dataset selection {ds} of {nd} ({cls_} path)'):
                    return
            sel = [rr.randrange(nd) for _ in range(n)]
            m1 = run(cls=rr.choice(['cpu', 'cuda']), delays=r.delays, simctl=(sel, 1))
            for d_ in sorted(set(sel)):
                al = run(delays=r.delays[d_])
                lanes = [i for i in range(n) if sel[i] == d_]
                if not eq('dataset_mode1', np.asarray(m1.s)[3:][:, :, lanes], np.asarray(al.s)[3:][:, :, lanes], f'per-simulation dataset selection {sel} (dataset {d_})'):
                    return
            effective += 1
        # capture at a finite time, CPU vs GPU
        T = rr.choice([0.0, 10.25, 33.0, 100.0, 200.5])
        tt = np.unique(rc[(rc > W.TMIN) & (rc < W.TMAX)])
        if len(tt) and rr.random() < 0.6:
            T = float(rr.choice(tt.tolist()))          # exactly at a transition time of some waveform: both paths must agree on inclusive / exclusive
            ctx.count('capture_at_transition_time')
        a1 = run(time=T)
        a2 = run(cls='cuda', time=T, reuse=True)
        if not eq('capture_time', np.asarray(a2.s)[3:], np.asarray(a1.s)[3:], f'capture at time {T} (CPU plain vs GPU path with reuse)'):
            return
        # (h) LogicSim option pairs and code paths
        m = case['lm']
        stim = nrng.integers(0, 256, size=(len(b.s_order), 3, (n - 1) // 8 + 1), dtype=np.uint8)
        outs = {}
        for reuse, strip in ((False, False), (True, False), (False, True), (True, True)):
            ls = LogicSim(b.c, sims=n, m=m, c_reuse=reuse, strip_forks=strip)
            ls.s[0] = stim
            ls.s_to_c(); ls.c_prop(); ls.c_to_s()
            outs[(reuse, strip)] = ls.s[1].copy()
        for key, pair in (((True, False), 'logic_reuse'), ((False, True), 'logic_strip'), ((True, True), 'logic_strip')):
            if not eq(pair, outs[key], outs[(False, False)], f'LogicSim m={m} results with c_reuse={key[0]} strip_forks={key[1]} vs plain'):
                return
        ls = LogicSim(b.c, sims=n, m=m, c_reuse=case['c_reuse'], strip_forks=case['strip_forks'])
        ls.s[0] = stim
        ls.s_to_c(); ls.c_prop(inject_cb=lambda line, values: None); ls.c_to_s()
        if not eq('logic_callback_path', ls.s[1], outs[(False, False)], f'LogicSim m={m} with a no-op inject_cb vs the plain path'):
            return
    ctx.count('effective_pairs', effective)
    ctx.case(case, effective > 0, key=WC.key_of(case) + [case['lm'], nd])
    ctx.sample({'netlist': G.net_text(net)[:300], 'datasets': nd, 'sims': n, 'caps': case['caps'], 'pairs': PAIRS})


def run(spec, ctx):
    if spec['shard'] == 0:
        # committed witness of the open finding (found by the thorough tier, seed 0)
        import json, os
        from .. import VERIF_DIR
        with open(os.path.join(VERIF_DIR, 'witness', 'C06-fork-filters-zero-width-pulse.json')) as f:
            wcase = json.load(f)['case']
        wcase.pop('pair', None)
        check_case(wcase, ctx)
    for i in range(spec['n']):
        rng = random.Random(f'C06/{spec["seed"]}/{spec["shard"]}/{i}')
        case = WC.gen_case(rng, max_gates=25)
        case['ndata'] = rng.choice([1, 2, 3, 4])
        case['lm'] = rng.choice([2, 4, 8])
        case['sims'] = rng.choice([2, 3, 5, 8, 9] * 3 + [33, 40, 49, 70])
        check_case(case, ctx)


def replay(case, ctx):
    check_case(case, ctx)
