"""C10 - copy, pickle, fork elimination and cell substitution preserve function."""
import itertools
import pickle
import random

import numpy as np

from .. import gen_circuit as G
from .. import hier as H
from ..simutil import int_to_row, row_to_int, lanes_mask, diff_lanes, KRandom

ID = 'C10'
TECHNIQUE = 'runtime monitoring: truth tables (ports + state-element inputs) of the really transformed circuit, simulated by the real LogicSim, are compared with an independent evaluation of the un-transformed hierarchical description (library cells flattened by an own parse of the library text); port/state names and order are compared with the description'
LEVEL_TEXT = ('(a) every cell of the five built-in libraries x {all pins connected} + random pin subsets (thorough: all subsets up to 6 pins) is instantiated in a host, '
              'transformed by the real resolve_tlib_cells (optionally composed with copy / pickle / eliminate_1to1_forks) and simulated for all input/state '
              'combinations; (b) random implementation shapes (multi-output, outputs read internally, inputs with 0/1/many readers, empty) go through the real '
              'substitute with random connected-pin subsets; (c) random circuits mixing primitives and library instances go through random compositions of the five '
              'transformations. BEFORE = own flattening + own evaluator, AFTER = real code. Exhaustive over cells, sampled over pin subsets/compositions.')
LEVEL_NOTE = 'trusted: vk/hier.py (own library parse + flattening), vk/gen_circuit.py evaluator; LogicSim itself is anchored by C01'
DESIGN_REF = 'DESIGN.md section 3 C10'
LEVEL = 'exploration'
RULE = ('Cases: (library cell, connected pin subset, composition) / (implementation shape, pin subset) / (random hierarchical circuit, composition). Non-trivial iff '
        'the observed function depends on >= 2 sources or a pin is left unconnected. Distinct = digest of all case fields.'
        ' Plus copy/pickle of circuits whose index order differs from their creation order (after eliminate_1to1_forks) and of the resolved b15 netlist (44k nodes); order changes are attributed per step.')
ASSUMPTIONS = ['a sequential library cell whose cell name contains neither dff nor latch (DLH_X1, TLATX1, ...) is not a state element of the un-resolved circuit; if it only feeds pruned logic its disappearance is accepted',
               'the function is not compared when an open instance pin is the trailing operand of an AND/NAND primitive (reads-0 vs. pin-absent is not decided by the property)',
               'an unconnected instance input pin reads constant 0',
               'implementations without outputs contain no gates (as in the built-in libraries)',
               'eliminate_1to1_forks is only applied when every single-reader fork is driven']
REACH = {'circuit.substitute': ('circuit.py', 373, 450), 'circuit.eliminate': ('circuit.py', 347, 372), 'circuit.copy_pickle': ('circuit.py', 455, 497)}

OPEN_FINDING = 'state-order-permuted-by-node-removal'


def plan(tier, seed):
    q = tier == 'quick'
    specs = [{'kind': 'lib', 'lib': l, 'part': p, 'parts': 3, 'subsets': 3 if q else 'all'} for l in H.LIBS for p in range(3)]
    specs += [{'kind': 'shapes', 'n': 1000 if q else 20000} for _ in range(4 if q else 8)]
    specs += [{'kind': 'hier', 'n': 300 if q else 8000} for _ in range(4 if q else 8)]
    specs += [{'kind': 'witness'}, {'kind': 'corpus'}]
    specs += [{'kind': 'editcopy', 'n': 400 if q else 8000} for _ in range(2 if q else 4)]
    return specs


def conclude(agg):
    c = agg['counters']
    r = [f'monitor counter {k} is zero' for k in ('lib_cells', 'lib_instances', 'shape_cases', 'hier_cases', 'lane_checks', 'name_checks', 'op/copy', 'op/pickle',
                                                  'op/eliminate', 'op/resolve', 'shape/output_read_internally', 'shape/ignored_input', 'shape/empty', 'shape/multi_output',
                                                  'unconnected_input_pins', 'unconnected_output_pins', 'sequential_cells', 'directed_dead_reader_before_multi_output_driver',
                                                  'editcopy_cases', 'editcopy_index_order_differs_from_creation_order', 'copy_pickle_order_checks', 'corpus_roundtrips')
         if c.get(k, 0) == 0]
    if len(agg['sets'].get('libs', ())) < 5:
        r.append('not all five libraries visited')
    return r


# ---- transformation + comparison ------------------------------------------------------------------------

def apply_ops(c, ops, libs, ctx, case=None):
    import kyupy.techlib as T
    removed_nodes = False
    for op in ops:
        before = list(c.nodes)
        names_before = [n.name for n in c.s_nodes]
        ctx.count('op/' + op.split(':')[0])
        if op == 'copy':
            c = c.copy()
        elif op == 'pickle':
            c = pickle.loads(pickle.dumps(c))
        elif op == 'eliminate':
            c.eliminate_1to1_forks()
        elif op.startswith('resolve'):
            for l in libs:
                c.resolve_tlib_cells(getattr(T, l))
        if op not in ('copy', 'pickle') and any(n.circuit is None for n in before):
            removed_nodes = True       # Node.remove() ran: the documented swap-with-last deletion renumbered some node
        if op in ('copy', 'pickle'):
            # these steps remove nothing: the open finding (order permuted by node removal) can never explain a change made here
            ctx.count('copy_pickle_order_checks')
            names_after = [n.name for n in c.s_nodes]
            if names_after != names_before and case is not None:
                ctx.violation('port-state-order', f'{op} changed the names/order of ports and state elements from {names_before} to {names_after}', case, sig='copy-order')
    return c, removed_nodes


def expected_names(flat):
    dffs = [ff['name'] for ff in flat['ffs'] if ff['kind'] == 'DFF']
    lats = [ff['name'] for ff in flat['ffs'] if ff['kind'] != 'DFF']
    return flat['io_order'] + dffs + lats


def compare(ctx, case, c, flat, label, removed_nodes, rerun_without=None):
    """simulate the transformed circuit with the real LogicSim and compare with the flat description"""
    from kyupy.logic_sim import LogicSim
    exp_names = expected_names(flat)
    got_names = [n.name for n in c.s_nodes]
    ctx.count('name_checks')
    pruned_hidden = [n for n in flat.get('hidden_state', []) if n not in got_names]
    if pruned_hidden:
        ctx.count('hidden_state_cells_pruned', len(pruned_hidden))
        exp_names = [n for n in exp_names if n not in pruned_hidden]
    if sorted(got_names) != sorted(exp_names):
        ctx.violation('port-state-names', f'{label}: ports/state elements after the transformation are {got_names}, the description has {exp_names}', case)
        return False
    order_ok = got_names == exp_names
    if not order_ok:
        nio = len(flat['io_order'])
        only_state = got_names[:nio] == exp_names[:nio]
        finding = None
        if only_state and removed_nodes:
            finding = OPEN_FINDING
        ctx.violation('port-state-order', f'{label}: order of ports/state elements changed from {exp_names} to {got_names}', case, finding=finding,
                      sig='state-order' if finding else 'port-state-order')
        if finding is None:
            return False
    if flat.get('ambiguous'):
        ctx.count('skipped/ambiguous_open_and_pin')
        return True
    srcs = flat['inputs'] + [ff['name'] for ff in flat['ffs']]
    k = len(srcs)
    if k <= 10:
        n = 1 << k
        assign = {s: sum(1 << lane for lane in range(n) if (lane >> i) & 1) for i, s in enumerate(srcs)}
    else:
        n = 256
        r = random.Random(str(case)[:200])
        assign = {s: r.getrandbits(n) for s in srcs}
    mask = lanes_mask(n)
    val = G.eval_net(flat, assign, mask)
    exp = G.observed(flat, val)
    for nm in pruned_hidden:          # unobservable: its outputs only fed pruned logic
        exp.pop(('ff', nm), None)
    srcs = [s for s in srcs if s not in pruned_hidden]
    row = {nm: i for i, nm in enumerate(got_names)}
    if not exp or len(c.lines) == 0:
        ctx.count('nothing_observable')
        return True          # no output and no state element left to observe (a circuit without operations is outside the simulators' domain)
    sim = LogicSim(c, sims=n, m=2)
    nb = sim.s.shape[-1]
    for s in srcs:
        sim.s[0, row[s], 0] = int_to_row(assign[s], nb)
        sim.s[0, row[s], 1] = sim.s[0, row[s], 0]
    sim.s_to_c()
    sim.c_prop()
    sim.c_to_s()
    for (kind, name), e in exp.items():
        got = row_to_int(sim.s[1, row[name], 0])
        ctx.count('lane_checks', n)
        if (got ^ e) & mask:
            lane = diff_lanes(got, e, n, 1)[0]
            ins = {s: (assign[s] >> lane) & 1 for s in srcs}
            ctx.violation('function-changed', f'{label}: {kind} {name} = {(got >> lane) & 1} for {ins} after the transformation, the description gives {(e >> lane) & 1}', case)
            return False
    return True


# ---- (a) library cells --------------------------------------------------------------------------------------

def lib_case(ctx, libname, cell, cd, conn_in, conn_out, ops):
    case = {'kind': 'lib', 'lib': libname, 'cell': cell, 'in': sorted(conn_in), 'out': sorted(conn_out), 'ops': ops}
    inst = {'name': 'u', 'lib': libname, 'cell': cell, 'in': {p: (f'p_{p}' if p in conn_in else None) for p in cd['ins']},
            'out': {p: (p in conn_out) for p in cd['outs']}}
    hnet = {'inputs': [f'p_{p}' for p in cd['ins'] if p in conn_in], 'items': [inst],
            'outputs': [{'name': f'q_{p}', 'sig': f'u~{p}'} for p in cd['outs'] if p in conn_out]}
    is_seq = any(H.kind_to_fam(k)[1] for _, k, _ in cd['stmts'])
    ctx.count('lib_instances')
    ctx.count('unconnected_input_pins', len(cd['ins']) - len(conn_in))
    ctx.count('unconnected_output_pins', len(cd['outs']) - len(conn_out))
    if is_seq:
        ctx.count('sequential_cells')
    ok = False
    with ctx.guard('transformation-raises', case):
        c, flat = H.build_host(hnet, [libname])
        c2, removed = apply_ops(c, ops, [libname], ctx, case)

        def rerun():
            c3, _ = H.build_host(hnet, [libname])
            c3, _ = apply_ops(c3, [o for o in ops if o != 'eliminate'], [libname], ctx)
            return [n.name for n in c3.s_nodes] == expected_names(flat)
        ok = compare(ctx, case, c2, flat, f'{libname}.{cell} in={sorted(conn_in)} out={sorted(conn_out)} ops={ops}', removed, rerun)
    ctx.case(case, len(conn_in) >= 2 or len(conn_in) < len(cd['ins']), key=case)
    return ok


def lib_shard(ctx, spec):
    libname = spec['lib']
    ctx.hit('libs', libname)
    cells = H.lib_cells(libname)
    rng = random.Random(f'C10/{spec["seed"]}/{libname}/{spec["part"]}')
    names = sorted(cells)
    for idx, cell in enumerate(names):
        if idx % spec['parts'] != spec['part']:
            continue
        cd = cells[cell]
        ctx.count('lib_cells')
        is_seq = any(H.kind_to_fam(k)[1] for _, k, _ in cd['stmts'])
        ins, outs = cd['ins'], cd['outs']
        combos = [(set(ins), set(outs))]
        subsets = []
        if spec['subsets'] == 'all' and len(ins) <= 6:
            for r in range(len(ins) + 1):
                for sub in itertools.combinations(ins, r):
                    subsets.append(set(sub))
        else:
            for _ in range(spec['subsets'] if spec['subsets'] != 'all' else 6):
                subsets.append({p for p in ins if rng.random() < 0.6})
        for sub in subsets:
            if outs:
                osub = {p for p in outs if rng.random() < 0.7}
            else:
                osub = set()
            combos.append((sub, osub))
        for k, (ci, co) in enumerate(combos):
            ops = ['resolve'] if k == 0 else rng.choice([['resolve'], ['resolve', 'eliminate'], ['copy', 'resolve'], ['resolve', 'pickle'], ['resolve', 'copy', 'eliminate']])
            if not lib_case(ctx, libname, cell, cd, ci, co, ops) and k == 0:
                break
        if idx < 3:
            ctx.sample({'lib': libname, 'cell': cell, 'pins': cd['ins'], 'outs': cd['outs'], 'combinations': len(combos)})


# ---- (b) implementation shapes -------------------------------------------------------------------------------

def gen_shape(rng):
    ni, no = rng.randint(0, 4), rng.randint(0, 3)
    ins = [f'a{i}' for i in range(ni)]
    stmts = []
    sigs = list(ins)
    if no == 0:
        return {'ins': ins, 'outs': [], 'stmts': []}
    ng = rng.randint(max(1, no), 6)
    for g in range(ng):
        k = rng.choice(['AND2', 'OR2', 'XOR2', 'INV1', 'NAND3', 'AO21', 'MUX21', 'BUF1'] + (['__const1__'] if not sigs else []))
        ar = {'AND2': 2, 'OR2': 2, 'XOR2': 2, 'INV1': 1, 'NAND3': 3, 'AO21': 3, 'MUX21': 3, 'BUF1': 1, '__const1__': 0}[k]
        if not sigs and ar:
            k, ar = '__const1__', 0
        stmts.append((f'w{g}', k, [rng.choice(sigs) for _ in range(ar)]))
        sigs.append(f'w{g}')
    gsigs = [s[0] for s in stmts]
    outs = rng.sample(gsigs, min(no, len(gsigs)))
    if rng.random() < 0.5:
        outs.sort(key=lambda s: int(s[1:]), reverse=rng.random() < 0.5)
    return {'ins': ins, 'outs': outs, 'stmts': stmts}


def shape_case(ctx, rng, idx):
    from kyupy.circuit import Circuit, Node, Line
    from kyupy import bench
    cd = gen_shape(rng)
    text = f'input({",".join(cd["ins"])}) output({",".join(cd["outs"])}) ' + ' '.join(f'{o}={k}({",".join(a)})' for o, k, a in cd['stmts'])
    conn_in = {p for p in cd['ins'] if rng.random() < 0.75}
    conn_out = {p for p in cd['outs'] if rng.random() < 0.75}
    elim = rng.random() < 0.5
    case = {'kind': 'shape', 'impl': text, 'in': sorted(conn_in), 'out': sorted(conn_out), 'eliminate_impl': elim, 'rngkey': getattr(rng, 'key', None)}
    read = {}
    for o, k, a in cd['stmts']:
        for x in a:
            read[x] = read.get(x, 0) + 1
    if any(o in read for o in cd['outs']):
        ctx.count('shape/output_read_internally')
    if any(p not in read for p in cd['ins']):
        ctx.count('shape/ignored_input')
    if not cd['stmts']:
        ctx.count('shape/empty')
    if len(cd['outs']) > 1:
        ctx.count('shape/multi_output')
    ctx.count('shape_cases')
    ctx.count('unconnected_input_pins', len(cd['ins']) - len(conn_in))
    ctx.count('unconnected_output_pins', len(cd['outs']) - len(conn_out))
    with ctx.guard('transformation-raises', case):
        impl = bench.parse(text)
        if elim:
            impl.eliminate_1to1_forks()
        c = Circuit('host')
        flat = {'style': 'v', 'inputs': [f'p_{p}' for p in cd['ins'] if p in conn_in], 'ffs': [], 'gates': [], 'wiring': {},
                'outputs': [{'name': f'q_{p}', 'sig': f'u~{p}'} for p in cd['outs'] if p in conn_out]}
        forks = {}
        for s in flat['inputs']:
            n = Node(c, s, 'input')
            c.io_nodes.append(n)
            f = Node(c, s)
            Line(c, n, f)
            forks[s] = f
        u = Node(c, 'u', 'MYCELL')
        for i, p in enumerate(cd['ins']):
            if p in conn_in:
                Line(c, forks[f'p_{p}'], (u, i))
        for j, p in enumerate(cd['outs']):
            if p in conn_out:
                f = Node(c, f'u~{p}~x')
                Line(c, (u, j), f)
                n = Node(c, f'q_{p}', 'output')
                c.io_nodes.append(n)
                Line(c, f, n)
        H.flatten_instance({'name': 'u', 'in': {p: (f'p_{p}' if p in conn_in else None) for p in cd['ins']}}, cd, flat)
        flat['io_order'] = flat['inputs'] + [o['name'] for o in flat['outputs']]
        # outputs in io order of the host: inputs first, then outputs as created
        flat['io_order'] = [n.name for n in c.io_nodes]
        c.substitute(u, impl)
        compare(ctx, case, c, flat, f'substitute "{text}" in={sorted(conn_in)} out={sorted(conn_out)} eliminate_impl={elim}', False)
    ctx.case(case, len(conn_in) >= 2 or len(conn_in) < len(cd['ins']), key=case)
    if idx < 2:
        ctx.sample(case)


# ---- (c) random hierarchical circuits through compositions ---------------------------------------------------------

HIER_CELLS = {'NANGATE': ['AOI21_X1', 'OAI211_X2', 'MUX2_X1', 'FA_X1', 'HA_X1', 'DFF_X1', 'SDFF_X1', 'TBUF_X1', 'AOI222_X1', 'DLH_X1', 'LOGIC1_X1', 'FILLCELL_X2'],
              'SAED32': ['AO221X1_RVT', 'MUX41X1_RVT', 'DEC24X1_RVT', 'FADDX1_RVT', 'DFFX1_RVT', 'OAI222X1_RVT', 'ISOLANDX1_RVT', 'TIEH_RVT', 'ANTENNA_RVT', 'LATCHX1_RVT'],
              'GSC180': ['OAI33X1', 'MX2X1', 'ADDFX1', 'DFFSRX1', 'TLATX1', 'TINVX1']}


def hier_case(ctx, rng, idx):
    libname = rng.choice(sorted(HIER_CELLS))
    cells = H.lib_cells(libname)
    nin = rng.randint(2, 5)
    hnet = {'inputs': [f'i{k}' for k in range(nin)], 'items': [], 'outputs': []}
    sigs = list(hnet['inputs'])
    nitems = rng.randint(2, 10)
    for k in range(nitems):
        if rng.random() < 0.55:
            cell = rng.choice(HIER_CELLS[libname])
            cd = cells[cell]
            is_seq = any(H.kind_to_fam(kk)[1] for _, kk, _ in cd['stmts'])
            inst = {'name': f'u{k}', 'lib': libname, 'cell': cell, 'in': {p: (rng.choice(sigs) if rng.random() < 0.85 else None) for p in cd['ins']},
                    'out': {p: rng.random() < 0.8 for p in cd['outs']}}
            if cd['outs'] and rng.random() < 0.8 and not any(inst['out'].values()):
                inst['out'][rng.choice(cd['outs'])] = True
            hnet['items'].append(inst)
            sigs += [f'u{k}~{p}' for p in cd['outs'] if inst['out'][p]]
        else:
            fam = rng.choice(list(G.VAR_FAMS) + list(G.FIX_FAMS) + ['INV', 'BUF'])
            n = rng.choice([2, 3, 4]) if fam in G.VAR_FAMS else (G.FIX_FAMS.get(fam, 1))
            hnet['items'].append({'name': f'g{k}', 'kind': (f'{fam}{n}' if fam in G.VAR_FAMS else {'INV': 'inv', 'BUF': 'buf'}.get(fam, fam)).lower(), 'fam': fam, 'ins': [rng.choice(sigs) for _ in range(n)], 'out': f'g{k}'})
            sigs.append(f'g{k}')
    dead_first = None
    if rng.random() < 0.2:
        # directed shape: a multi-output cell M whose first output feeds only a cell D with all outputs open (dead logic that resolve
        # prunes) while another output of M is observed; D is created before M, so D is resolved while M is still a library cell
        multi = [cn for cn in HIER_CELLS[libname] if len(cells[cn]['outs']) >= 2 and not any(H.kind_to_fam(kk)[1] for _, kk, _ in cells[cn]['stmts'])]
        single = [cn for cn in HIER_CELLS[libname] if len(cells[cn]['outs']) == 1 and cells[cn]['ins'] and not any(H.kind_to_fam(kk)[1] for _, kk, _ in cells[cn]['stmts'])]
        if multi and single:
            k = len(hnet['items'])
            mc, dc = rng.choice(multi), rng.choice(single)
            M = {'name': f'u{k}', 'lib': libname, 'cell': mc, 'in': {p: rng.choice(sigs) for p in cells[mc]['ins']}, 'out': {p: True for p in cells[mc]['outs']}}
            o0, o1 = cells[mc]['outs'][0], cells[mc]['outs'][1]
            D = {'name': f'u{k + 1}', 'lib': libname, 'cell': dc, 'in': {p: (f'u{k}~{o0}' if i == 0 else rng.choice(sigs)) for i, p in enumerate(cells[dc]['ins'])},
                 'out': {p: False for p in cells[dc]['outs']}}
            hnet['items'] += [M, D]
            sigs.append(f'u{k}~{o1}')
            hnet['outputs'].append({'name': 'od', 'sig': f'u{k}~{o1}'})
            dead_first = (k + 1, k)
    cand = [s for s in sigs if s not in hnet['inputs']] or sigs
    for j in range(rng.randint(1, 4)):
        hnet['outputs'].append({'name': f'o{j}', 'sig': rng.choice(cand[-6:])})
    ops = []
    for _ in range(rng.randint(1, 5)):
        ops.append(rng.choice(['copy', 'pickle', 'eliminate', 'resolve']))
    if 'resolve' not in ops:
        ops.insert(rng.randint(0, len(ops)), 'resolve')
    order = list(range(len(hnet['items'])))
    if rng.random() < 0.6:
        rng.shuffle(order)          # node creation order != topological order: resolve meets readers before drivers
    if dead_first is not None:
        d, m_ = dead_first
        order.remove(d)
        order.insert(order.index(m_), d)
        ctx.count('directed_dead_reader_before_multi_output_driver')
    case = {'kind': 'hier', 'hnet': hnet, 'ops': ops, 'lib': libname, 'node_order': order}
    hier_check(ctx, case, idx)


def hier_check(ctx, case, idx):
    hnet, ops, libname = case['hnet'], case['ops'], case['lib']
    ctx.count('hier_cases')
    with ctx.guard('transformation-raises', case):
        c, flat = H.build_host(hnet, [libname], node_order=case.get('node_order'))
        # state elements are listed in node-index order: the description's order follows the creation order
        pos = {hnet['items'][k]['name']: i for i, k in enumerate(case.get('node_order') or range(len(hnet['items'])))}
        flat['ffs'].sort(key=lambda ff: pos[ff['name']])
        c2, removed = apply_ops(c, ops, [libname], ctx, case)
        rerun = None
        compare(ctx, case, c2, flat, f'hierarchical circuit ops={ops} lib={libname} items={[(it.get("cell") or it["kind"]) for it in hnet["items"]]}', removed, rerun)
    ctx.case(case, True, key=case)
    if idx < 2:
        ctx.sample({'items': [(it['name'], it.get('cell') or it['kind']) for it in hnet['items']], 'ops': ops})


def witness(ctx):
    """the committed witness of the open finding: fork elimination permutes the state-element order"""
    from kyupy import bench
    text = 'input(a) output(z) x=buf(a) q1=dff(x) z=and(q1,q2) q2=dff(q1)'
    case = {'kind': 'witness', 'bench': text, 'ops': ['eliminate']}
    with ctx.guard('transformation-raises', case):
        c = bench.parse(text)
        before = [n.name for n in c.s_nodes]
        n0 = len(c.nodes)
        # the bench input port 'a' is an undriven fork with two readers: elimination is applicable
        c.eliminate_1to1_forks()
        after = [n.name for n in c.s_nodes]
        ctx.count('name_checks')
        if after != before:
            only_state = sorted(after) == sorted(before) and after[:2] == before[:2]
            ctx.violation('port-state-order', f'eliminate_1to1_forks on "{text}" changes the order of ports/state elements from {before} to {after}', case,
                          finding=OPEN_FINDING if (only_state and len(c.nodes) < n0) else None, sig='state-order')
    ctx.case(case, True, key=case)


def gen_bench_seq(rng):
    """small sequential bench netlist whose statements come in a random order (state elements tend to come late, so they sit at high node indices)"""
    nin, nff, ng = rng.randint(1, 3), rng.randint(2, 5), rng.randint(2, 8)
    ins = [f'a{i}' for i in range(nin)]
    ffs = [f'q{i}' for i in range(nff)]
    stmts = []
    avail = ins + ffs
    for g in range(ng):
        k = rng.choice(['and', 'or', 'nand', 'nor', 'xor', 'not', 'buf'])
        ar = 1 if k in ('not', 'buf') else rng.randint(2, 3)
        stmts.append((0.3 + 0.1 * g, f'g{g}={k}({",".join(rng.choice(avail) for _ in range(ar))})'))
        avail.append(f'g{g}')
    for i, q in enumerate(ffs):
        stmts.append((rng.choice([0.0, 0.8, 1.5, 2.0]) + rng.random(), f'{q}=dff({rng.choice(avail)})'))
    stmts.sort()
    outs = rng.sample([f'g{g}' for g in range(ng)], rng.randint(1, min(3, ng)))
    return ' '.join([f'input({x})' for x in ins] + [f'output({x})' for x in outs] + [t for _, t in stmts])


def editcopy_case(ctx, rng, idx):
    """copy / pickle of a circuit with an edit history: after node removals the index order of the nodes differs from their creation order;
    names and order of ports and state elements and the responses to the same (positional) test vectors must be those of the circuit copied"""
    from kyupy import bench
    from kyupy.logic_sim import LogicSim
    text = gen_bench_seq(rng)
    case = {'kind': 'editcopy', 'bench': text, 'rngkey': getattr(rng, 'key', None)}
    ctx.count('editcopy_cases')
    with ctx.guard('transformation-raises', case):
        c = bench.parse(text)
        created = [n.name for n in c.s_nodes]
        c.eliminate_1to1_forks()
        names = [n.name for n in c.s_nodes]
        if names != created:
            ctx.count('editcopy_index_order_differs_from_creation_order')      # (that change itself is the open finding; the witness shard reports it)
        n = 16
        stim = np.random.default_rng(__import__("zlib").crc32(text.encode())).integers(0, 256, size=(len(names), 3, (n + 7) // 8), dtype=np.uint8)

        def response(circ):
            sim = LogicSim(circ, sims=n, m=2)
            sim.s[0] = stim
            sim.s_to_c(); sim.c_prop(); sim.c_to_s()
            return sim.s[1][:, 0].copy()
        ref = response(c) if len(c.lines) else None
        for op in ('copy', 'pickle'):
            c2 = c.copy() if op == 'copy' else pickle.loads(pickle.dumps(c))
            ctx.count('copy_pickle_order_checks')
            names2 = [x.name for x in c2.s_nodes]
            if names2 != names:
                ctx.violation('port-state-order', f'{op} of an edited circuit changes the names/order of ports and state elements from {names} to {names2}; bench "{text}" after eliminate_1to1_forks', case, sig='copy-order')
                continue
            if ref is not None:
                got = response(c2)
                ctx.count('lane_checks', n * len(names))
                if not np.array_equal(got, ref):
                    row = int(np.nonzero((got != ref).any(axis=-1))[0][0])
                    ctx.violation('function-changed', f'{op} of an edited circuit: the same test vectors give another response at {names[row]}; bench "{text}" after eliminate_1to1_forks', case)
    ctx.case(case, True, key=text)
    if idx < 2:
        ctx.sample(case)


def corpus_case(ctx):
    """the shipped b15 netlist with branch forks, resolved: 44k nodes / 54k lines - sizes beyond 32767 - through pickle and copy"""
    import os
    from .. import REPO
    from ..ref_circuit import name_structure
    from kyupy import verilog
    from kyupy.techlib import SAED32
    from kyupy.logic_sim import LogicSim
    case = {'kind': 'corpus', 'file': 'b15_2ig.v.gz'}
    with ctx.guard('transformation-raises', case):
        c = verilog.load(os.path.join(REPO, 'tests', 'b15_2ig.v.gz'), tlib=SAED32, branchforks=True)
        c.resolve_tlib_cells(SAED32)
        ctx.count('corpus_nodes', len(c.nodes))
        ref_struct = name_structure(c)
        names = [n.name for n in c.s_nodes]
        n = 16
        stim = np.random.default_rng(5).integers(0, 256, size=(len(names), 3, (n + 7) // 8), dtype=np.uint8)

        def response(circ):
            sim = LogicSim(circ, sims=n, m=2)
            sim.s[0] = stim
            sim.s_to_c(); sim.c_prop(); sim.c_to_s()
            return sim.s[1][:, 0].copy()
        ref = response(c)
        for op in ('pickle', 'copy'):
            c2 = pickle.loads(pickle.dumps(c)) if op == 'pickle' else c.copy()
            ctx.count('op/' + op)
            ctx.count('corpus_roundtrips')
            if [x.name for x in c2.s_nodes] != names:
                ctx.violation('port-state-order', f'{op} of the resolved b15 netlist ({len(c.nodes)} nodes) changes names/order of ports and state elements', case)
                continue
            if name_structure(c2) != ref_struct:
                ctx.violation('function-changed', f'{op} of the resolved b15 netlist ({len(c.nodes)} nodes, {len(c.lines)} lines): connections differ from the original', case)
                continue
            got = response(c2)
            ctx.count('lane_checks', n * len(names))
            if not np.array_equal(got, ref):
                ctx.violation('function-changed', f'{op} of the resolved b15 netlist: the same test vectors give another response', case)
    ctx.case(case, True, key=case)


def run(spec, ctx):
    kind = spec['kind']
    if kind == 'lib':
        lib_shard(ctx, spec)
    elif kind == 'witness':
        witness(ctx)
    elif kind == 'corpus':
        corpus_case(ctx)
    elif kind == 'editcopy':
        for i in range(spec['n']):
            editcopy_case(ctx, KRandom(f'C10ec/{spec["seed"]}/{spec["shard"]}/{i}'), i)
    else:
        for i in range(spec['n']):
            rng = KRandom(f'C10{kind}/{spec["seed"]}/{spec["shard"]}/{i}')
            (shape_case if kind == 'shapes' else hier_case)(ctx, rng, i)


def replay(case, ctx):
    k = case.get('kind')
    if k == 'lib':
        cd = H.lib_cells(case['lib'])[case['cell']]
        lib_case(ctx, case['lib'], case['cell'], cd, set(case['in']), set(case['out']), case['ops'])
    elif k == 'witness':
        witness(ctx)
    elif k == 'corpus':
        corpus_case(ctx)
    elif k == 'hier':
        hier_check(ctx, case, 99)
    elif k == 'editcopy':
        editcopy_case(ctx, KRandom(case['rngkey']), 99)
    else:
        shape_case(ctx, KRandom(case['rngkey']), 99)
