"""C16 - the fault-injection callback sees and controls every evaluated signal."""
import operator
import random

import numpy as np

from .. import gen_circuit as G
from .. import ref_mv as R
from .. import wave as W
from ..enc import to_bp, from_bp
from ..simutil import int_to_row, row_to_int, lanes_mask

ID = 'C16'
TECHNIQUE = 'runtime monitoring: the callback itself is the probe - a recording callback logs every invocation (identity, array view, content) against the netlist-derived evaluation order and an independent line-level evaluator; an injecting callback overwrites one signal and all results are compared with the evaluator driven by the same forced value'
LEVEL_TEXT = ('Real LogicSim.c_prop(inject_cb=...) runs in all three logics on seeded circuits and option settings. Monitor 1 records every callback invocation and checks '
              'exactly-once per evaluated signal, order, identity, that the array is a writable view of the fresh value and that its content equals an independent '
              'line-level evaluation. Monitor 2 overwrites a chosen signal with random per-lane values and compares every port/state row and (reuse off) every line '
              'with the evaluator in which that line is driven by the overwritten value (downstream reflects it, upstream does not).')
LEVEL_NOTE = 'trusted: vk/gen_circuit.py line-level evaluator, vk/ref_mv.py, vk/wave.py line_deps (netlist-derived evaluated-signal set)'
DESIGN_REF = 'DESIGN.md section 3 C16'
LEVEL = 'exploration'
RULE = ('Cases: (circuit, m in {2,4,8}, c_reuse, strip_forks, batch size, stimulus seed, injected line, injected values). Non-trivial iff the injected line has both '
        'upstream logic (it is not driven by a source) and downstream logic (some other evaluated line depends on it). Distinct = digest of all case fields.'
        ' Two large cases per shard (200-400 gates, 65-261 patterns).')
ASSUMPTIONS = ['the identity may be passed as a Line or as anything operator.index() maps to the line index',
               'cells without output line have no signal and get no callback; stripped fork branches are not evaluated and get none',
               "X and '-' are one class in value comparisons"]
REACH = {'logic_sim.c_prop': ('logic_sim.py', 54, 261)}
REACH_TEXT = {'cb-m2': ('logic_sim.py', "if o_line < len(self.circuit.lines): inject_cb("), 'cb-m48': ('logic_sim.py', 'if inject_cb is not None and o_line < len(self.circuit.lines): inject_cb(')}

FEATS = ['unconn_in', 'unconn_out', 'ff_no_d', 'out_read', 'wiring', 'consts', 'floating', 'ff_unread']


class FalsyCallback:
    """a perfectly good callable whose truth value is False (an injector object with __len__ == 0)"""
    def __init__(self, fn):
        self.fn = fn

    def __len__(self):
        return 0

    def __call__(self, line, values):
        return self.fn(line, values)


def plan(tier, seed):
    q = tier == 'quick'
    return [{'n': 150 if q else 3000} for _ in range(16)]


def conclude(agg):
    c = agg['counters']
    r = [f'monitor counter {k} is zero' for k in ('callbacks_m2', 'callbacks_m4', 'callbacks_m8', 'cycle_callbacks', 'falsy_callable_callbacks', 'floating_net_injections', 'injections', 'downstream_lines_changed', 'upstream_lines_checked')
         if c.get(k, 0) == 0]
    return r


def stim_for(case, srcs, n):
    r = random.Random(case['vseed'])
    m = case['m']
    if m == 2:
        return {s: r.getrandbits(n) for s in srcs}
    alpha = [0, 1, 2, 3] if m == 4 else list(range(8))
    return {s: [r.choice(alpha) if r.random() < 0.8 else r.choice([0, 3]) for _ in range(n)] for s in srcs}


def load(sim, b, assign, m, n):
    if m == 2:
        nbytes = sim.s.shape[-1]
        for row, (kind, name) in enumerate(b.s_order):
            if kind != 'out':
                sim.s[0, row, 0] = int_to_row(assign[name], nbytes)
                sim.s[0, row, 1] = sim.s[0, row, 0]
                sim.s[0, row, 2] = 0
    else:
        rows = [assign[name] if kind != 'out' else [2] * n for kind, name in b.s_order]
        sim.s[0] = to_bp(np.array(rows, dtype=np.uint8), 3)


def arr_to_val(arr, m, n):
    """callback / memory array (mdim, nbytes) -> harness value"""
    if m == 2:
        return row_to_int(arr[0]) & lanes_mask(n)
    return [int(x) for x in from_bp(np.asarray(arr)[None], n)[0]]


def same(a, b_, m):
    if m == 2:
        return a == b_
    return all(R.canon(x) == R.canon(y) for x, y in zip(a, b_))


def check_case(case, ctx):
    from kyupy.logic_sim import LogicSim
    net, m, n = case['net'], case['m'], case['sims']
    mode = {2: 'bool', 4: 'mv4', 8: 'mv8'}[m]
    b = G.build(net)
    srcs = net['inputs'] + [ff['name'] for ff in net['ffs']]
    assign = stim_for(case, srcs, n)
    strip = case['strip_forks']
    order, deps = W.line_deps(b.c, strip_forks=strip)
    evaluated = [li for li in order if deps[li][0] not in ('alias', 'zero')]
    val = G.eval_lines(b, net, assign, n, mode=mode, strip_forks=strip)
    mask = lanes_mask(n)
    nontrivial = False
    with ctx.guard('callback-run-raises', case):
        # ---- monitor 1: recording callback ----------------------------------------------------------
        sim = LogicSim(b.c, sims=n, m=m, c_reuse=case['c_reuse'], strip_forks=strip)
        load(sim, b, assign, m, n)
        sim.s_to_c()
        log = []

        def rec(line, values):
            log.append((line, values, np.array(values, copy=True), values.flags.writeable if hasattr(values, 'flags') else False,
                        np.shares_memory(values, sim.c) if isinstance(values, np.ndarray) else False))
        cb = rec
        if case['vseed'] % 4 == 1:
            cb = FalsyCallback(rec)
            ctx.count('falsy_callable_callbacks')
        sim.c_prop(inject_cb=cb)
        sim.c_to_s()
        ctx.count(f'callbacks_m{m}', len(log))
        ids = []
        for line, _, _, _, _ in log:
            try:
                ids.append(operator.index(line))
            except TypeError:
                ctx.violation('callback-identity', f'm={m}: callback received {type(line).__name__} {line!r} as signal identity', case)
                return
        pub = [int(z) for z in np.asarray(sim.ops)[:, 1] if int(z) < len(b.c.lines)]
        if sorted(ids) != sorted(evaluated):
            missing = sorted(set(evaluated) - set(ids))[:5]
            extra = sorted(set(ids) - set(evaluated))[:5]
            dup = sorted({i for i in ids if ids.count(i) > 1})[:5]
            ctx.violation('callback-exactly-once', f'm={m}: callback invoked {len(ids)} times for {len(evaluated)} evaluated signals '
                          f'(missing lines {missing}, unexpected {extra}, repeated {dup}); strip={strip}; {G.net_text(net)[:300]}', case)
            return
        if ids != pub:
            ctx.violation('callback-order', f'm={m}: callback order {ids[:12]} differs from the evaluation order {pub[:12]}', case)
            return
        pos = {li: k for k, li in enumerate(ids)}
        for li in evaluated:
            for x in (deps[li][1] if deps[li][0] == 'op' else []):
                x = deps[x][1] if deps[x][0] == 'alias' else x
                if deps[x][0] == 'zero':
                    continue
                if pos[x] > pos[li]:
                    ctx.violation('callback-order', f'm={m}: signal {li} reported before its operand {x}', case)
                    return
        for (line, values, snap, writable, shares), li in zip(log, ids):
            if not isinstance(values, np.ndarray) or not writable or not shares:
                ctx.violation('callback-view', f'm={m}: array passed for line {li} is not a writable view of the simulator\'s value memory '
                              f'(type {type(values).__name__}, writable {writable}, shares memory {shares})', case)
                return
            got = arr_to_val(snap, m, n)
            if not same(got, val[li], m):
                ctx.violation('callback-content', f'm={m}: array passed for line {li} ({b.line_sig.get(li)}) holds {got if m == 2 else R.CHARS[got[0]]} '
                              f'but the freshly computed value is {val[li] if m == 2 else R.CHARS[val[li][0]]}; {G.net_text(net)[:300]}', case)
                return
        base_s1 = sim.s[1].copy()
        # cycle() hands the callback to every propagation: k cycles -> k x (evaluated signals) invocations, in the same order
        if net['ffs'] and case['vseed'] % 3 == 0:
            kcyc = 1 + case['vseed'] % 3
            simc = LogicSim(b.c, sims=n, m=m, c_reuse=case['c_reuse'], strip_forks=strip)
            load(simc, b, assign, m, n)
            seen = []
            simc.cycle(kcyc, inject_cb=lambda line, values: seen.append(operator.index(line)))
            ctx.count('cycle_callbacks', len(seen))
            if seen != ids * kcyc:
                ctx.violation('callback-exactly-once', f'm={m}: cycle({kcyc}, inject_cb) invoked the callback {len(seen)} times, expected {kcyc} x {len(ids)} in evaluation order', case)
                return

        # ---- monitor 2: injection ------------------------------------------------------------------
        rr = random.Random(case['vseed'] ^ 0xC16)
        for _ in range(case['ninj']):
            L = rr.choice(evaluated)
            floating_lines = [li for li in evaluated if deps[li][0] == 'op' and not deps[li][1] and b.c.lines[li].driver.kind == '__fork__']
            if floating_lines and rr.random() < 0.5:
                L = rr.choice(floating_lines)       # overwrite a floating net: nothing else that reads constant 0 may change
                ctx.count('floating_net_injections')
            if m == 2:
                V = rr.getrandbits(n)
                Varr = np.array([int_to_row(V, sim.s.shape[-1])], dtype=np.uint8)
            else:
                alpha = [0, 1, 2, 3] if m == 4 else list(range(8))
                V = [rr.choice(alpha) for _ in range(n)]
                Varr = to_bp(np.array([V], dtype=np.uint8), sim.mdim)[0]
            fval = G.eval_lines(b, net, assign, n, mode=mode, strip_forks=strip, force={L: V})
            sim2 = LogicSim(b.c, sims=n, m=m, c_reuse=case['c_reuse'], strip_forks=strip)
            load(sim2, b, assign, m, n)
            sim2.s_to_c()

            def inj(line, values, L=L, Varr=Varr):
                if operator.index(line) == L:
                    values[...] = Varr
            sim2.c_prop(inject_cb=inj)
            sim2.c_to_s()
            ctx.count('injections')
            changed = [li for li in evaluated if li != L and not same(fval[li], val[li], m)]
            has_up = deps[L][0] == 'op' and len(deps[L][1]) > 0
            has_down = any(L in [(deps[x][1] if deps[x][0] == 'alias' else x) for x in (deps[li][1] if deps[li][0] == 'op' else [])] for li in evaluated)
            nontrivial = nontrivial or (has_up and has_down)
            ctx.count('downstream_lines_changed', len(changed))
            for row, (kind, name) in enumerate(b.s_order):
                if kind == 'in':
                    continue
                nd = b.c.s_nodes[row]
                if len(nd.ins) > 0 and nd.ins[0] is not None:
                    e = fval[nd.ins[0].index]
                else:
                    e = 0 if m == 2 else [0] * n
                got = arr_to_val(sim2.s[1, row, :sim2.mdim], m, n)
                if not same(got, e, m):
                    ctx.violation('injection-result', f'm={m}: after overwriting line {L} ({b.line_sig.get(L)}) the captured {kind} {name} differs from simulating '
                                  f'the netlist with that line driven by the injected values; reuse={case["c_reuse"]} strip={strip}; {G.net_text(net)[:300]}', dict(case, L=L))
                    return
            if not case['c_reuse']:
                for li in evaluated:
                    got = arr_to_val(sim2.c[int(sim2.c_locs[li])], m, n)
                    ctx.count('upstream_lines_checked' if li not in changed and li != L else 'downstream_lines_checked')
                    if not same(got, fval[li], m):
                        side = 'downstream' if li in changed or li == L else 'not downstream'
                        ctx.violation('injection-result', f'm={m}: after overwriting line {L}, line {li} ({side}) holds a value different from the netlist driven '
                                      f'with the injected values; strip={strip}; {G.net_text(net)[:300]}', dict(case, L=L))
                        return
    ctx.case(case, nontrivial, key=[G.net_text(net), m, case['c_reuse'], strip, n, case['vseed'], case['ninj']])
    ctx.sample({'netlist': G.net_text(net)[:300], 'm': m, 'c_reuse': case['c_reuse'], 'strip_forks': strip, 'sims': n, 'evaluated_signals': len(evaluated),
                'injections': case['ninj']})


def run(spec, ctx):
    for i in range(spec['n']):
        rng = random.Random(f'C16/{spec["seed"]}/{spec["shard"]}/{i}')
        feats = [f for f in FEATS if rng.random() < 0.25]
        net = G.gen_net(rng, feats=feats, max_gates=rng.choice([8, 20, 40]))
        large = i in (1, 2)
        if large:
            # beyond the usual sizes: hundreds of gates, wide or deep, > 64 / 256 patterns
            net = G.gen_net(rng, feats=feats, n_gates=rng.choice([200, 400]), n_in=rng.choice([2, 12]), n_ff=rng.choice([0, 8, 30]))
            ctx.count('large_cases')
        case = {'net': net, 'm': rng.choice([2, 4, 8]), 'c_reuse': rng.random() < 0.4, 'strip_forks': rng.random() < 0.4,
                'sims': rng.choice([1, 5, 8, 9, 17, 33]) if not large else rng.choice([65, 130, 261]), 'vseed': rng.randrange(1 << 30), 'ninj': rng.choice([2, 4, 8]), 'feats': feats}
        check_case(case, ctx)


def replay(case, ctx):
    check_case(case, ctx)
