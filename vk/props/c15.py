"""C15 - logic-value encodings convert losslessly and follow the axis convention."""
import random

import numpy as np

from .. import enc
from ..simutil import KRandom

ID = 'C15'
TECHNIQUE = 'runtime monitoring: round-trip and direct-definition oracles over seeded shapes, strings and dtypes; exhaustive alias table'
LEVEL_TEXT = ('Real conversion functions are run on seeded arrays of every rank 1..4, pattern counts 1..70, all eight values, every documented '
              'character alias and every integer dtype; results are compared with direct definitions written in the harness (own bit packing, '
              'Python int bit counting) and with each other (round trips). Held on the sampled shapes; exhaustive over characters/aliases.')
LEVEL_NOTE = 'trusted: vk/enc.py (own packing), the character table copied from the docstrings of kyupy/logic.py, numpy'
DESIGN_REF = 'DESIGN.md section 3 C15'
LEVEL = 'exploration'
RULE = ('Cases: (function, shape, dtype/alphabet) drawn from a seeded RNG: mv_to_bp/bp_to_mv round trips on rank 1..4 arrays with 1..70 patterns, '
        'mvarray/bparray from strings and nested lists incl. aliases, mv_str round trips (rank 1 and 2), packbits/unpackbits on all 8 integer '
        'dtypes (random, edge values, truncation and padding), popcount on uint8 arrays. Non-trivial iff the pattern count is not a multiple of 8, '
        'or the rank differs from 2, or an alias character / non-uint8 dtype is involved. Distinct = distinct (function, shape, dtype, content digest).'
        ' Plus numpy scalar aliases of 0/1, single-signal and single-pattern arrays for mv_str, interpret() results edited in place, pattern counts up to 70001.')
ASSUMPTIONS = ['several one-character arguments to mvarray are one vector (as tests/test_logic.py::test_mvarray_single_vector states)',
               'mv_str is only defined for rank <= 2; unpackbits needs a C-contiguous array of rank >= 1',
               "anything that is not a documented alias reads as UNKNOWN ('X')"]
REACH = {'logic.convert': ('logic.py', 83, 121), 'logic.bp': ('logic.py', 261, 281), 'logic.bits': ('logic.py', 410, 434)}

# the documented character table (docstrings of the eight constants in kyupy/logic.py)
ALIASES = {
    0: ['0', 0, False, 'L', 'l', np.uint8(0), np.int64(0), np.bool_(False), np.int8(0)],        # the same value in another number type is the same value
    3: ['1', 1, True, 'H', 'h', np.uint8(1), np.int64(1), np.bool_(True), np.int8(1)],
    2: ['-', None, 'Z', 'z'],
    5: ['R', 'r', '/'],
    6: ['F', 'f', '\\'],
    4: ['P', 'p', '^'],
    7: ['N', 'n', 'v'],
    1: ['X', 'x', '?', 'U', 'q', '2'],
}
INT_DTYPES = ['uint8', 'int8', 'uint16', 'int16', 'uint32', 'int32', 'uint64', 'int64']


def plan(tier, seed):
    n = 12 if tier == 'quick' else 16
    per = 600 if tier == 'quick' else 20000
    return [{'n': per, 'sub': i} for i in range(n)] + [{'table': True}]


def conclude(agg):
    c = agg['counters']
    r = []
    for k in ('roundtrip_bp', 'mvarray_strings', 'mv_str_roundtrip', 'pack_roundtrip', 'popcount', 'alias_entries', 'padding_lanes_checked', 'popcount_large_arrays', 'result_mutated_then_repeated', 'interpret_result_edited', 'large_pattern_counts'):
        if c.get(k, 0) == 0:
            r.append(f'monitor counter {k} is zero')
    if len(agg['sets'].get('dtypes', ())) < 8:
        r.append('not all 8 integer dtypes were exercised')
    return r


def lg():
    import kyupy.logic as L
    return L


def table(ctx):
    L = lg()
    for code, al in ALIASES.items():
        for a in al:
            case = {'kind': 'alias', 'alias': repr(a), 'code': code}
            with ctx.guard('alias-table', case):
                got = L.interpret(a)
                if got != code:
                    ctx.violation('alias-table', f'interpret({a!r}) = {got}, documented {code}', case)
                if isinstance(a, str):
                    v = L.mvarray(a + a)    # a two-character string is a vector of two values
                    if v.shape != (2,) or int(v[0]) != code or int(v[1]) != code:
                        ctx.violation('alias-table', f'mvarray({a + a!r}) = {v.tolist()}, documented [{code},{code}]', case)
            ctx.count('alias_entries')
            ctx.case(case, True, key=case)
    # rendering: each of the eight values renders to its documented character and parses back
    with ctx.guard('render-table', {'kind': 'render'}):
        allv = np.arange(8, dtype=np.uint8)
        s = L.mv_str(allv)
        if s != enc.CHARS:
            ctx.violation('render-table', f'mv_str([0..7]) = {s!r}, documented {enc.CHARS!r}', {'kind': 'render'})
        back = L.mvarray(str(s))
        if back.tolist() != list(range(8)):
            ctx.violation('render-table', f'mvarray(mv_str([0..7])) = {back.tolist()}', {'kind': 'render'})
        ctx.count('render_table')
    ctx.sample({'kind': 'alias-table', 'entries': sum(len(v) for v in ALIASES.values())})


def one(ctx, rng, nrng):
    L = lg()
    kind = rng.choice(['bp', 'bp', 'strings', 'mvstr', 'pack', 'pack', 'popcount', 'lists', 'bparray'])
    if kind == 'bp':
        rank = rng.choice([1, 2, 2, 2, 3, 4])
        pats = rng.choice([1, 2, 3, 7, 8, 9, 15, 16, 17, 31, 33, 63, 64, 65, 70, rng.randint(1, 70)])
        if rng.random() < 0.04:
            pats = rng.choice([257, 1025, 65537, 70001])      # far more patterns (or, rank 1, signals) than any byte / word / 64k block boundary
            ctx.count('large_pattern_counts')
        shape = tuple(rng.randint(1, 6 if pats < 1000 else 2) for _ in range(rank - 1)) + (pats,)
        a = nrng.integers(0, 8, size=shape, dtype=np.uint8)
        case = {'rngkey': getattr(rng, 'key', None), 'kind': 'bp', 'shape': list(shape), 'a': a.tolist()}
        with ctx.guard('bp-roundtrip', case):
            bp = L.mv_to_bp(a)
            if rank == 1:
                # a rank-1 array is a vector of signals holding ONE pattern
                exp_bp = enc.to_bp(a[:, None])
                exp_shape = (shape[0], 3, 1)
                n = 1
                ref = a[:, None]
            else:
                exp_bp = enc.to_bp(a)
                exp_shape = shape[:-1] + (3, (pats + 7) // 8)
                n = pats
                ref = a
            if bp.shape != exp_shape:
                ctx.violation('axis-convention', f'mv_to_bp shape {bp.shape}, expected {exp_shape} for input {shape}', case)
            elif not np.array_equal(bp, exp_bp):
                ctx.violation('bp-encoding', f'mv_to_bp bytes differ from the documented packing for shape {shape}', case)
            else:
                mv = L.bp_to_mv(bp)
                if mv.shape[:-1] != ref.shape[:-1] or mv.shape[-1] != 8 * exp_shape[-1]:
                    ctx.violation('axis-convention', f'bp_to_mv shape {mv.shape} for bp {bp.shape}', case)
                else:
                    if not np.array_equal(mv[..., :n], ref):
                        ctx.violation('bp-roundtrip', f'bp_to_mv(mv_to_bp(a))[..., :n] != a for shape {shape}', case)
                    if mv[..., n:].any():
                        ctx.violation('bp-padding', f'padding lanes are not 0 for shape {shape}', case)
                    ctx.count('padding_lanes_checked', int(np.prod(mv[..., n:].shape)))
            ctx.count('roundtrip_bp')
        ctx.case(case, pats % 8 != 0 or rank != 2, key=['bp', list(shape), enc.v2s(a.flat[:40])])
        ctx.sample({'kind': 'bp', 'shape': list(shape)})
    elif kind in ('strings', 'bparray'):
        S, P = rng.randint(2, 9), rng.randint(1, 20)
        use_alias = rng.random() < 0.5
        vals = [[rng.randrange(8) for _ in range(S)] for _ in range(P)]
        strs = [''.join(rng.choice([x for x in ALIASES[v] if isinstance(x, str)]) if use_alias else enc.CHARS[v] for v in pat) for pat in vals]
        case = {'rngkey': getattr(rng, 'key', None), 'kind': kind, 'strings': strs}
        exp = np.array(vals, dtype=np.uint8).T if P > 1 else np.array(vals[0], dtype=np.uint8)   # (S, P) or (S,)
        with ctx.guard('mvarray-strings', case):
            if kind == 'strings':
                # interpret() hands out plain Python lists; a caller may edit them (fill don't-cares, ...) - later conversions of the same text
                # must still spell the text, and two equal strings in one call must give independent rows
                if hasattr(L, 'interpret'):
                    pre = L.interpret(strs[0])
                    if isinstance(pre, list):
                        for i_ in range(len(pre)):
                            pre[i_] = (int(pre[i_]) + 1 + i_) % 8 if not isinstance(pre[i_], list) else pre[i_]
                        ctx.count('interpret_result_edited')
                    rows = L.interpret([strs[0], strs[0]])
                    if isinstance(rows, list) and len(rows) == 2 and isinstance(rows[0], list) and len(rows[0]):
                        keep = list(rows[1])
                        rows[0][0] = (int(rows[0][0]) + 3) % 8
                        if list(rows[1]) != keep:
                            ctx.violation('mvarray-strings', f'interpret([t, t]) with t={strs[0]!r}: writing to the first row changed the second one', case)
                    again = L.interpret(strs[0])
                    if [int(x) for x in again] != vals[0]:
                        ctx.violation('mvarray-strings', f'interpret({strs[0]!r}) = {list(again)} after an earlier result was edited in place, the text spells {vals[0]}', case)
                got = L.mvarray(*strs)
                if got.flags.writeable and got.shape == exp.shape and np.array_equal(got, exp):
                    got[...] ^= 7                      # a caller may modify what it got (the library's own STIL code does):
                    got = L.mvarray(*strs)             # the next conversion of the same strings must not see that
                    ctx.count('result_mutated_then_repeated')
                if got.shape != exp.shape:
                    ctx.violation('axis-convention', f'mvarray of {P} strings of length {S}: shape {got.shape}, expected {exp.shape}', case)
                elif not np.array_equal(got, exp):
                    ctx.violation('mvarray-strings', f'mvarray({strs}) = {got.tolist()} expected {exp.tolist()}', case)
                ctx.count('mvarray_strings')
            else:
                got = L.bparray(*strs)
                e2 = exp if P > 1 else exp[:, None]
                if got.shape != (S, 3, (max(P, 1) + 7) // 8):
                    ctx.violation('axis-convention', f'bparray of {P} strings of length {S}: shape {got.shape}', case)
                elif not np.array_equal(enc.from_bp(got, e2.shape[-1]), e2):
                    ctx.violation('bp-encoding', f'bparray({strs}) decodes to {enc.from_bp(got, e2.shape[-1]).tolist()}', case)
                ctx.count('bparray_strings')
        ctx.case(case, use_alias or P % 8 != 0, key=case)
        ctx.sample(case)
    elif kind == 'lists':
        S, P = rng.randint(2, 6), rng.randint(2, 10)
        vals = [[rng.randrange(8) for _ in range(S)] for _ in range(P)]
        pool = {v: [x for x in ALIASES[v]] for v in ALIASES}
        lists = [[rng.choice(pool[v]) for v in pat] for pat in vals]
        case = {'rngkey': getattr(rng, 'key', None), 'kind': 'lists', 'lists': repr(lists)}
        exp = np.array(vals, dtype=np.uint8).T
        with ctx.guard('mvarray-lists', case):
            got = L.mvarray(*lists)
            if got.shape != exp.shape or not np.array_equal(got, exp):
                ctx.violation('mvarray-lists', f'mvarray(*{lists}) = {got.tolist()} expected {exp.tolist()}', case)
            ctx.count('mvarray_lists')
        ctx.case(case, True, key=case)
    elif kind == 'mvstr':
        if rng.random() < 0.4:
            a = nrng.integers(0, 8, size=(rng.randint(1, 30),), dtype=np.uint8)
            case = {'rngkey': getattr(rng, 'key', None), 'kind': 'mvstr', 'a': a.tolist()}
            with ctx.guard('mv_str', case):
                s = L.mv_str(a)
                if s != enc.v2s(a):
                    ctx.violation('mv_str', f'mv_str({a.tolist()}) = {s!r}', case)
                elif len(a) >= 2 and not np.array_equal(L.mvarray(str(s)), a):
                    ctx.violation('mv_str', f'mvarray(mv_str(a)) != a for {a.tolist()}', case)
                elif len(a) >= 2:
                    r1 = L.mvarray(str(s))
                    if r1.flags.writeable:
                        r1[...] ^= 7
                        if not np.array_equal(L.mvarray(str(s)), a):
                            ctx.violation('mv_str', f'mvarray({str(s)!r}) returns other values after an earlier result was modified in place', case)
                        ctx.count('result_mutated_then_repeated')
        else:
            S, P = rng.choice([1, 1, 2, 3, 5, 8]), rng.choice([1, 1, 2, 3, 7, 12])      # a single signal / a single pattern are legal shapes too
            a = nrng.integers(0, 8, size=(S, P), dtype=np.uint8)
            delim = rng.choice(['\n', ' ', ',', '|'])
            case = {'rngkey': getattr(rng, 'key', None), 'kind': 'mvstr', 'a': a.tolist(), 'delim': delim}
            with ctx.guard('mv_str', case):
                s = L.mv_str(a, delim=delim)
                exp = delim.join(enc.v2s(a[:, p]) for p in range(P))
                if s != exp:
                    ctx.violation('mv_str', f'mv_str renders {s!r}, expected one string of the {S} signal values per pattern: {exp!r}', case)
                else:
                    back = np.asarray(L.mvarray(*str(s).split(delim)))
                    # (a single pattern or a single signal comes back as a 1-D vector - the documented convention; the values are what matters here)
                    if back.size != a.size or not np.array_equal(back.reshape(a.shape), a):
                        ctx.violation('mv_str', 'mvarray(*mv_str(a).split(delim)) != a', case)
        ctx.count('mv_str_roundtrip')
        ctx.case(case, True, key=case)
    elif kind == 'pack':
        dt = np.dtype(rng.choice(INT_DTYPES))
        ctx.hit('dtypes', dt.name)
        rank = rng.randint(1, 3)
        shape = tuple(rng.randint(1, 5) for _ in range(rank))
        info = np.iinfo(dt)
        a = nrng.integers(info.min, info.max, size=shape, dtype=dt, endpoint=True)
        edge = [info.min, info.max, 0, 1] + ([-1] if info.min < 0 else [])
        flat = a.reshape(-1)
        for i in range(min(len(flat), len(edge))):
            if rng.random() < 0.5:
                flat[i] = edge[i]
        bits = 8 * dt.itemsize
        case = {'rngkey': getattr(rng, 'key', None), 'kind': 'pack', 'dtype': dt.name, 'shape': list(shape), 'a': a.tolist()}
        with ctx.guard('pack-unpack', case):
            u = L.unpackbits(a)
            if u.shape != shape + (bits,):
                ctx.violation('pack-unpack', f'unpackbits shape {u.shape}, expected {shape + (bits,)}', case)
            else:
                exp = np.zeros(shape + (bits,), dtype=np.uint8)
                for idx in np.ndindex(shape):
                    v = int(a[idx]) & ((1 << bits) - 1)
                    for b in range(bits):
                        exp[idx + (b,)] = (v >> b) & 1
                if not np.array_equal(u, exp):
                    ctx.violation('pack-unpack', f'unpackbits bits are not LSB-first two\'s complement for {dt.name}', case)
                back = L.packbits(u, dt)
                if back.dtype != dt or back.shape != shape or not np.array_equal(back, a):
                    ctx.violation('pack-unpack', f'packbits(unpackbits(a), {dt.name}) != a', case)
                # truncation / padding to another dtype
                dt2 = np.dtype(rng.choice(INT_DTYPES))
                k = rng.randint(1, bits)
                got = L.packbits(u[..., :k], dt2)
                b2 = 8 * dt2.itemsize
                exp2 = np.zeros(shape, dtype=dt2)
                for idx in np.ndindex(shape):
                    bl = [int(x) for x in exp[idx][:k]][:b2]
                    if len(bl) < b2:
                        bl = bl + [bl[-1] if dt2.kind == 'i' else 0] * (b2 - len(bl))
                    v = sum(bit << i for i, bit in enumerate(bl))
                    if dt2.kind == 'i' and v >= 1 << (b2 - 1):
                        v -= 1 << b2
                    exp2[idx] = v
                if got.dtype != dt2 or not np.array_equal(got, exp2):
                    ctx.violation('pack-unpack', f'packbits of {k} bits into {dt2.name}: {got.tolist()} expected {exp2.tolist()}', dict(case, k=k, dt2=dt2.name))
            ctx.count('pack_roundtrip')
        ctx.case(case, dt.name != 'uint8', key=case)
        ctx.sample({'kind': 'pack', 'dtype': dt.name, 'shape': list(shape)})
    elif kind == 'popcount':
        import kyupy
        rank = rng.randint(1, 3)
        shape = tuple(rng.randint(1, 9) for _ in range(rank))
        a = nrng.integers(0, 256, size=shape, dtype=np.uint8)
        big = rng.random() < 0.15
        if big:
            # large packed arrays: more one bits than 8/16-bit counters hold
            shape = (rng.choice([300, 9000, 70000]),)
            a = nrng.integers(0, 256, size=shape, dtype=np.uint8) if rng.random() < 0.5 else np.full(shape, 0xff, dtype=np.uint8)
            ctx.count('popcount_large_arrays')
        case = {'rngkey': getattr(rng, 'key', None), 'kind': 'popcount', 'a': a.tolist() if not big else f'{shape} array'}
        with ctx.guard('popcount', case):
            got = kyupy.popcount(a)
            exp = sum(bin(int(v)).count('1') for v in a.flat) if not big else int(np.unpackbits(a).astype(np.int64).sum())
            if int(got) != exp:
                ctx.violation('popcount', f'popcount = {got}, expected {exp}', case)
            ctx.count('popcount')
        ctx.case(case, True, key=case)


def run(spec, ctx):
    if spec.get('table'):
        table(ctx)
        return
    for i in range(spec['n']):
        rng = KRandom(f'C15/{spec["seed"]}/{spec["shard"]}/{i}')
        one(ctx, rng, np.random.default_rng(rng.getrandbits(63)))


def replay(case, ctx):
    # replays re-run the whole deterministic table plus a fixed-seed sample containing the case's kind
    if case.get('rngkey'):
        rng = KRandom(case['rngkey'])
        one(ctx, rng, np.random.default_rng(rng.getrandbits(63)))
    else:
        table(ctx)
