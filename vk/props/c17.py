"""C17 - graph traversals and name lookups are complete and correctly ordered."""
import random

from .. import gen_circuit as G
from .. import graph

ID = 'C17'
TECHNIQUE = 'runtime monitoring: the sequences yielded by the real traversal generators are checked online against order/completeness oracles computed by independent graph algorithms; prefix lookups are checked against structures known by construction'
LEVEL_TEXT = ('Seeded circuits (unconnected pins anywhere incl. pin 0, removed lines leaving holes, state elements, dangling logic) are traversed by the real '
              'topological_order, topological_order_with_level, topological_line_order, reversed_topological_order and fanin(origin sets); every yielded sequence is '
              'checked for exactly-once, driver-before-reader (mirror: reader-before-driver), sources/sinks first, longest-path levels and MUST <= yielded <= MAY '
              'for fan-in. io_locs/s_locs are checked on port/state names constructed from (base, index tuple, style). Held on what was generated.')
LEVEL_NOTE = 'trusted: vk/graph.py (own Kahn order, longest path, reachability), the name constructor in this module'
DESIGN_REF = 'DESIGN.md section 3 C17'
LEVEL = 'exploration'
RULE = ('Cases: (circuit with hostile features, removed lines, origin sets) and (naming scheme: bases with bracket/underscore/plain index styles, gaps, indices >= 10, '
        '2-D, several bases sharing a prefix). A traversal case is non-trivial iff the circuit has an unconnected pin or a state element and >= 3 levels; a naming '
        'case iff it has an index >= 10 or two dimensions. Distinct = digest of the case.'
        ' Two circuits per shard with nets of several hundred readers (forks with more than 255 branches); prefix lookups are repeated after count-preserving edits; three shards build a chain 2^15 / 2^16 (+-) gates deep with short paths joining it and check every reported level.')
ASSUMPTIONS = ['fan-in: a state element that feeds the cone is allowed but not required (MAY only); in combinational circuits MUST = MAY = transitive fan-in',
               'base names consist of letters (and inner underscores) only, so the index part of a name is unambiguous; one name is never a prefix path of another']
REACH = {'circuit.traversals': ('circuit.py', 500, 570), 'circuit.locs': ('circuit.py', 270, 308)}


def plan(tier, seed):
    q = tier == 'quick'
    return [{'n': 600 if q else 20000, 'names': 700 if q else 20000} for _ in range(16)]


def conclude(agg):
    c = agg['counters']
    return [f'monitor counter {k} is zero' for k in ('nodes_yielded', 'lines_yielded', 'level_checks', 'deep_path_circuits', 'fanin_sets', 'circuits_with_open_pin0', 'circuits_with_state',
                                                     'lookups', 'lookups_2d', 'lookups_ge10', 'lookups_none', 'removed_lines', 'rewired_same_counts', 'relookups_after_edit', 'wide_fanout_circuits')
            if c.get(k, 0) == 0]


def check_traversals(case, ctx):
    net = case['net']
    b = G.build(net)
    c = b.c
    rr = random.Random(case['rseed'])
    # remove some lines: leaves None holes in cell pin lists, squeezes fork outputs
    for _ in range(case['nremove']):
        if len(c.lines) > 2:
            l = rr.choice(list(c.lines))
            l.remove()
            ctx.count('removed_lines')
    from ..ref_circuit import inv_circuit
    bad = inv_circuit(c)
    if bad:
        ctx.violation('graph-precondition', f'after removing lines through the public API the graph is inconsistent ({bad[0]}); traversals of it are meaningless; {G.net_text(net)[:300]}', case)
        ctx.case(case, False, key=[G.net_text(net), case['rseed'], case['nremove']])
        return
    if not traversal_checks(case, ctx, c, net, rr, first=True):
        return
    # a cached / stale order would show after an edit that keeps the node and line counts
    with ctx.guard('traversal-raises', case):
        what = graph.rewire_same_counts(c, rr)
    if what:
        ctx.count('rewired_same_counts')
        if inv_circuit(c):
            ctx.violation('graph-precondition', f'after {what} the graph is inconsistent: {inv_circuit(c)[0]}', case)
            return
        traversal_checks(case, ctx, c, net, rr, first=False)


def traversal_checks(case, ctx, c, net, rr, first):
    nodes = list(c.nodes)
    N = len(nodes)
    lv = graph.levels(c)
    depth = max(lv.values()) if lv else 0
    has_open = any(any(x is None for x in n.ins) for n in nodes)
    has_state = any(graph.is_state(n) for n in nodes)
    if first and any(len(n.ins) > 0 and n.ins[0] is None and any(x is not None for x in n.ins) for n in nodes if not graph.is_state(n)):
        ctx.count('circuits_with_open_pin0')
    if has_state and first:
        ctx.count('circuits_with_state')
    if first:
        ctx.case(case, (has_open or has_state) and depth >= 3, key=[G.net_text(net), case['rseed'], case['nremove']])
    txt = G.net_text(net)[:300] + ('' if first else ' [after a count-preserving rewiring]')

    with ctx.guard('traversal-raises', case):
        # ---- forward order --------------------------------------------------------------------------
        seq = list(c.topological_order())
        ctx.count('nodes_yielded', len(seq))
        pos = {}
        for k, n in enumerate(seq):
            if n.index in pos:
                ctx.violation('topological-order', f'node {n.index} ({n.name}) yielded twice; {txt}', case)
                return False
            pos[n.index] = k
        if len(seq) != N:
            miss = [f'{n.index}:{n.kind}"{n.name}" ins={[None if x is None else x.index for x in n.ins]}' for n in nodes if n.index not in pos][:3]
            ctx.violation('topological-order', f'{N - len(seq)} of {N} nodes never yielded, e.g. {miss}; {txt}', case)
            return False
        for l in c.lines:
            if not graph.is_source(l.reader) and pos[l.driver.index] > pos[l.reader.index]:
                ctx.violation('topological-order', f'reader {l.reader.index} yielded before its combinational driver {l.driver.index}; {txt}', case)
                return False
        src_pos = [pos[n.index] for n in nodes if graph.is_source(n)]
        non_pos = [pos[n.index] for n in nodes if not graph.is_source(n)]
        if src_pos and non_pos and max(src_pos) > min(non_pos):
            ctx.violation('topological-order', f'a non-source node is yielded before all inputs/state elements; {txt}', case)
            return False
        if [n.index for n in c.topological_order()] != [n.index for n in seq]:
            ctx.violation('topological-order', f'a second traversal of the same circuit yields a different sequence; {txt}', case)
            return False
        # ---- with level -------------------------------------------------------------------------------
        seql = list(c.topological_order_with_level())
        if [n.index for n, _ in seql] != [n.index for n in seq]:
            ctx.violation('topological-level', f'topological_order_with_level yields a different node sequence; {txt}', case)
            return False
        for n, l in seql:
            ctx.count('level_checks')
            if int(l) != lv[n.index]:
                ctx.violation('topological-level', f'node {n.index} ({n.kind} "{n.name}") reported level {l}, longest combinational distance from a source is {lv[n.index]}; {txt}', case)
                return False
        # ---- line order -------------------------------------------------------------------------------
        lseq = list(c.topological_line_order())
        ctx.count('lines_yielded', len(lseq))
        lpos = {}
        for k, l in enumerate(lseq):
            if l.index in lpos:
                ctx.violation('line-order', f'line {l.index} yielded twice; {txt}', case)
                return False
            lpos[l.index] = k
        if len(lseq) != len(c.lines):
            ctx.violation('line-order', f'{len(c.lines) - len(lseq)} of {len(c.lines)} lines never yielded; {txt}', case)
            return False
        for l in c.lines:
            if not graph.is_source(l.driver):
                for x in graph.conn_ins(l.driver):
                    if lpos[x.index] > lpos[l.index]:
                        ctx.violation('line-order', f'line {l.index} yielded before line {x.index} that feeds its driver; {txt}', case)
                        return False
        # ---- reverse order ------------------------------------------------------------------------------
        rseq = list(c.reversed_topological_order())
        rpos = {}
        for k, n in enumerate(rseq):
            if n.index in rpos:
                ctx.violation('reversed-order', f'node {n.index} yielded twice; {txt}', case)
                return False
            rpos[n.index] = k
        if len(rseq) != N:
            miss = [f'{n.index}:{n.kind}"{n.name}" outs={[None if x is None else x.index for x in n.outs]}' for n in nodes if n.index not in rpos][:3]
            ctx.violation('reversed-order', f'{N - len(rseq)} of {N} nodes never yielded, e.g. {miss}; {txt}', case)
            return False
        for l in c.lines:
            if not graph.is_state(l.driver) and rpos[l.reader.index] > rpos[l.driver.index]:
                ctx.violation('reversed-order', f'driver {l.driver.index} yielded before its reader {l.reader.index}; {txt}', case)
                return False
        sink = lambda n: graph.is_state(n) or not graph.conn_outs(n)
        sp = [rpos[n.index] for n in nodes if sink(n)]
        np_ = [rpos[n.index] for n in nodes if not sink(n)]
        if sp and np_ and max(sp) > min(np_):
            ctx.violation('reversed-order', f'a node with readers is yielded before all sinks/state elements; {txt}', case)
            return False
        # ---- fan-in ----------------------------------------------------------------------------------------
        for _ in range(case['nfanin']):
            k = rr.choice([1, 1, 2, 3])
            origins = rr.sample(nodes, min(k, N))
            got = list(c.fanin(origins))
            ctx.count('fanin_sets')
            gi = [n.index for n in got]
            if len(set(gi)) != len(gi):
                ctx.violation('fanin', f'fanin yields a node twice for origins {[o.index for o in origins]}; {txt}', case)
                return False
            must, may = fanin_sets(origins)
            if not must <= set(gi):
                ctx.violation('fanin', f'fanin({[o.index for o in origins]}) misses nodes {sorted(must - set(gi))[:5]} that have a combinational path to an origin; {txt}', case)
                return False
            if not set(gi) <= may:
                ctx.violation('fanin', f'fanin({[o.index for o in origins]}) yields nodes {sorted(set(gi) - may)[:5]} without any path to an origin; {txt}', case)
                return False
            fp = {i: k2 for k2, i in enumerate(gi)}
            for l in c.lines:
                if l.driver.index in fp and l.reader.index in fp and not graph.is_state(l.driver) and fp[l.reader.index] > fp[l.driver.index]:
                    ctx.violation('fanin', f'fanin order is not reverse-topological: driver {l.driver.index} before reader {l.reader.index}; {txt}', case)
                    return False
    ctx.sample({'netlist': txt, 'removed_lines': case['nremove'], 'nodes': N, 'depth': depth})
    return True


def fanin_sets(origins):
    """MUST: origins + non-state nodes reaching an origin through non-state nodes only.  MAY: anything with a path."""
    must = set()
    stack = []
    for o in origins:
        must.add(o.index)
        stack.append(o)
    while stack:
        n = stack.pop()
        for l in graph.conn_ins(n):
            d = l.driver
            if graph.is_state(d) or d.index in must:
                continue
            must.add(d.index)
            stack.append(d)
    may = set()
    stack = list(origins)
    while stack:
        n = stack.pop()
        if n.index in may:
            continue
        may.add(n.index)
        for l in graph.conn_ins(n):
            stack.append(l.driver)
    return must, may


# ---- name lookups ----------------------------------------------------------------------------------------

LETTERS = 'abcdefghijklmnopqrstuvwxyz'


def gen_names(rng):
    """-> list of (name, base, index tuple) and the bases"""
    nb = rng.randint(1, 4)
    bases = []
    shared = rng.choice(['', 'da', 'bus', 'q'])
    while len(bases) < nb:
        base = shared + ''.join(rng.choice(LETTERS) for _ in range(rng.randint(1, 4)))
        if rng.random() < 0.2 and len(base) > 2:
            base = base[:1] + '_' + base[1:]
        # no base may be a prefix of another base (keeps 'one name is never a prefix path of another')
        if any(x.startswith(base) or base.startswith(x) for x in bases):
            continue
        bases.append(base)
    items = []
    shapes = {}
    for base in bases:
        dim = rng.choice([0, 1, 1, 1, 2])
        style = rng.choice(['[]', '_', 'plain']) if dim == 1 else rng.choice(['[]', '_'])
        shapes[base] = dim
        if dim == 0:
            items.append((base, base, ()))
        elif dim == 1:
            hi = rng.choice([2, 4, 12, 33])
            idx = sorted(rng.sample(range(hi), rng.randint(1, min(hi, 14))))
            for i in idx:
                nm = {'[]': f'{base}[{i}]', '_': f'{base}_{i}_', 'plain': f'{base}{i}'}[style]
                items.append((nm, base, (i,)))
        else:
            rows = sorted(rng.sample(range(12), rng.randint(1, 3)))
            cols = sorted(rng.sample(range(14), rng.randint(1, 4)))
            for i in rows:
                for j in cols:
                    nm = f'{base}[{i}][{j}]' if style == '[]' else f'{base}_{i}__{j}_'
                    items.append((nm, base, (i, j)))
    return items, bases, shapes


def expected_locs(prefix, names_in_order):
    """names_in_order: list of (name, base, idx) in container order -> expected return value of the lookup"""
    top = {}
    for pos, (nm, base, idx) in enumerate(names_in_order):
        if not nm.startswith(prefix):
            continue
        d = top
        path = (base,) + idx
        for k in path[:-1]:
            d = d.setdefault(k, {})
        d[path[-1]] = pos

    def sv(d):
        return [sv(v) for k, v in sorted(d.items())] if isinstance(d, dict) else d
    l = sv(top)
    while isinstance(l, list) and len(l) == 1:
        l = l[0]
    return None if isinstance(l, list) and len(l) == 0 else l


def check_names(case, ctx):
    from kyupy.circuit import Circuit, Node
    rng = random.Random(case['nseed'])
    items, bases, shapes = gen_names(rng)
    c = Circuit('n')
    order = list(items)
    rng.shuffle(order)
    nio = rng.randint(0, len(order))
    io, st = order[:nio], order[nio:]
    for nm, base, idx in io:
        n = Node(c, nm, rng.choice(['input', 'output']))
        c.io_nodes.append(n)
    dffs = [x for x in st if rng.random() < 0.7]
    lats = [x for x in st if x not in dffs]
    for nm, base, idx in st:
        Node(c, nm, 'DFFX1' if (nm, base, idx) in dffs else 'LATCHX1')
    s_order = io + [x for x in st if x in dffs] + [x for x in st if x in lats]
    ge10 = any(i >= 10 for _, _, idx in items for i in idx)
    twod = any(len(idx) == 2 for _, _, idx in items)
    ctx.case(case, ge10 or twod, key=[sorted(x[0] for x in items), case['nseed']])
    prefixes = list(bases) + [bases[0][:1], 'zz_nomatch']
    common = bases[0]
    for b_ in bases[1:]:
        while not b_.startswith(common):
            common = common[:-1]
    if common:
        prefixes.append(common)
    with ctx.guard('lookup-raises', case):
        for p in prefixes:
            for fn, cont, label in ((c.io_locs, io, 'io_locs'), (c.s_locs, s_order, 's_locs')):
                got = fn(p)
                exp = expected_locs(p, cont)
                ctx.count('lookups')
                if exp is None:
                    ctx.count('lookups_none')
                if twod:
                    ctx.count('lookups_2d')
                if ge10:
                    ctx.count('lookups_ge10')
                if got != exp:
                    ctx.violation('prefix-lookup', f'{label}({p!r}) = {got} expected {exp} for container names {[x[0] for x in cont]}', case)
                    return
        # second phase on the same Circuit object: the caller edits the lists it got, the port order is changed in place and one state element is
        # removed and created again (same counts, other positions) - every lookup must describe the circuit as it is now
        for p in prefixes:
            for fn in (c.io_locs, c.s_locs):
                r = fn(p)
                if isinstance(r, list):
                    r.reverse()
                    r.append(-7)
        by_name = {x[0]: x for x in items}
        rng.shuffle(c.io_nodes)
        if st:
            nm = rng.choice(st)[0]
            kind = c.cells[nm].kind
            c.cells[nm].remove()
            Node(c, nm, kind)
        io2 = [by_name[n.name] for n in c.io_nodes]
        s2 = io2 + [by_name[n.name] for n in c.nodes if n.kind == 'DFFX1'] + [by_name[n.name] for n in c.nodes if n.kind == 'LATCHX1']
        ctx.count('relookups_after_edit')
        for p in prefixes:
            for fn, cont, label in ((c.io_locs, io2, 'io_locs'), (c.s_locs, s2, 's_locs')):
                got = fn(p)
                exp = expected_locs(p, cont)
                ctx.count('lookups')
                if got != exp:
                    ctx.violation('prefix-lookup', f'{label}({p!r}) = {got} expected {exp} after the port order was changed / a state element was re-created on the same '
                                  f'circuit (earlier results edited by the caller); container names now {[x[0] for x in cont]}', case)
                    return
    ctx.sample({'names': [x[0] for x in items][:12], 'prefixes': prefixes})


def check_deep(case, ctx):
    """A combinational path deeper than 2**15 / 2**16 nodes: the reported levels must still be the longest distances (no narrow counter)."""
    from kyupy.circuit import Circuit, Node, Line
    depth, side = case['depth'], case['side']
    ctx.case(case, True, key=['deep', depth, side])
    with ctx.guard('traversal-raises', case):
        c = Circuit('deep')
        prev = Node(c, 'a', 'input')
        other = Node(c, 'b', 'input')
        want = {prev.index: 0, other.index: 0}
        for i in range(depth):
            # every `side`-th node is a two-input gate that also reads the second input (a short and a long path meet)
            two = side and i % side == side - 1
            n = Node(c, f'g{i}', 'AND2' if two else 'BUF1')
            Line(c, prev, (n, 0))
            if two:
                Line(c, other, (n, 1))
            want[n.index] = i + 1
            prev = n
        z = Node(c, 'z', 'output')
        Line(c, prev, z)
        want[z.index] = depth + 1
        seen = set()
        for n, l in c.topological_order_with_level():
            ctx.count('level_checks')
            seen.add(n.index)
            if int(l) != want[n.index]:
                ctx.violation('topological-level', f'chain of {depth} gates: node {n.index} ("{n.name}") reported level {l}, longest combinational distance from a source is {want[n.index]}', case)
                return
        if len(seen) != len(c.nodes):
            ctx.violation('topological-level', f'chain of {depth} gates: topological_order_with_level yielded {len(seen)} of {len(c.nodes)} nodes', case)
            return
        ctx.count('deep_path_circuits')


def run(spec, ctx):
    if spec['shard'] < 3:
        rng = random.Random(f'C17d/{spec["seed"]}/{spec["shard"]}')
        base = [1 << 15, 1 << 16, 1 << 15][spec['shard']]
        check_deep({'deep': True, 'depth': base + rng.choice([-1, 0, 1, 2, 300]) + (0 if spec['shard'] < 2 else rng.randrange(2, 2000)), 'side': rng.choice([0, 7, 1000])}, ctx)
    feats_all = ['unconn_in', 'unconn_out', 'ff_no_d', 'out_read', 'wiring', 'consts', 'floating', 'ff_unread']
    for i in range(spec['n']):
        rng = random.Random(f'C17/{spec["seed"]}/{spec["shard"]}/{i}')
        feats = [f for f in feats_all if rng.random() < 0.4]
        net = G.gen_net(rng, feats=feats, max_gates=rng.choice([6, 20, 50]))
        if i in (1, 2):
            # nets with several hundred readers (clock / reset like): forks with more than 255 branches, levels hundreds of nodes wide
            net = G.gen_net(rng, feats=[], n_in=rng.choice([1, 2]), n_gates=rng.choice([300, 420]), n_ff=rng.choice([0, 2]), wide=rng.choice([150, 300]), style=rng.choice(['v', 'b']))
            ctx.count('wide_fanout_circuits')
        case = {'net': net, 'rseed': rng.randrange(1 << 30), 'nremove': rng.choice([0, 0, 1, 3, 6]), 'nfanin': 4}
        check_traversals(case, ctx)
    for i in range(spec['names']):
        rng = random.Random(f'C17n/{spec["seed"]}/{spec["shard"]}/{i}')
        check_names({'names': True, 'nseed': rng.randrange(1 << 30)}, ctx)


def replay(case, ctx):
    if case.get('deep'):
        check_deep(case, ctx)
    elif case.get('names'):
        check_names(case, ctx)
    else:
        check_traversals(case, ctx)
