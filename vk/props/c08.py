"""C08 - signal-memory map and allocator never let live data overlap."""
import os
import random

import numpy as np

from .. import REPO
from .. import gen_circuit as G
from .. import invariants as I
from .. import shadow
from .. import wavecase as WC

ID = 'C08'
TECHNIQUE = 'runtime monitoring: client-boundary shadow of the real sim.Heap with a structural invariant walker after every event; memory-map lifetime checker over the tables published by the real scheduler; shadow-memory sanitizer (region/ownership/epoch) on real propagate+capture runs'
LEVEL_TEXT = ('The real allocator is driven through many short random alloc/free histories (several size alphabets) and, in the thorough tier, through ALL '
              'histories up to length 7 over sizes {1,2,3}; after every event a shadow set of live regions and an invariant walker check overlap, tiling, '
              'coalesced/trimmed free list and the high-water mark, and - from the client side alone - that a request never misses a large enough contiguous free gap (unmerged neighbours). The same monitor wraps the allocator inside the real SimOps constructor for seeded '
              'circuits x capacities x options and the shipped netlists; the published map is checked against lifetimes derived from the op list and the '
              'netlist, and a shadow-memory sanitizer watches every access of real propagate/capture runs. Held on what was explored.')
LEVEL_NOTE = 'trusted: vk/invariants.py, vk/shadow.py, vk/wave.py (netlist-derived producers); the allocator histories are exhaustive only up to the stated length'
DESIGN_REF = 'DESIGN.md section 3 C08, 2.3, 2.5'
LEVEL = 'exploration'
RULE = ('Cases: allocator histories (random: 1-40 events over size alphabets {1,2,3},{4,8},{1,4,16},{2,3,5}; exhaustive: every history of length <= L '
        'over {1,2,3}, L=5 quick / 7 thorough) and memory-map cases (circuit, simulator kind, capacities, c_reuse, strip_forks). A history is non-trivial iff '
        'it contains a free that is followed by a later alloc; a map case iff memory reuse hands out at least one address twice. Distinct = digest of the '
        'history / of all case fields; distinct allocator states (chunks, released) are counted separately.'
        ' The shipped b15 netlist (44k nodes, 54k lines) is part of both tiers; the allocator monitor has a client-boundary layer (overlap, high-water lower bound, coalescing gap rule) and an optional white-box layer.')
ASSUMPTIONS = ['clients free only locations they hold (SimOps does; an invalid free is reported as a client error and not forwarded)',
               'capacities are positive multiples of 4 for the waveform simulators']
REACH = {'sim.Heap': ('sim.py', 83, 147), 'sim.memmap': ('sim.py', 235, 330)}
REACH_TEXT = {'heap-split': ('sim.py', 'self.chunks[loc + size] = chunksize - size'), 'heap-merge-next': ('sim.py', 'self.released[released_idx] = loc'),
              'heap-merge-prev': ('sim.py', 'del self.released[released_idx]'), 'heap-tail-cascade': ('sim.py', 'self.current_size -= chunksize')}

ALPHABETS = [[1, 2, 3], [4, 8], [1, 4, 16], [2, 3, 5], [4, 4, 8, 16, 32]]


def plan(tier, seed):
    q = tier == 'quick'
    specs = [{'kind': 'heap-rand', 'n': 6000 if q else 60000} for _ in range(4)]
    specs += [{'kind': 'heap-exh', 'L': 5 if q else 7, 'first': f} for f in (1, 2, 3)]
    specs += [{'kind': 'map', 'n': 250 if q else 2500} for _ in range(8)]
    specs += [{'kind': 'corpus', 'big': True}]      # b15 (44k nodes, 54k lines) takes a few seconds: also in the quick tier, sizes beyond 32767 matter
    return specs


def notes(agg):
    n = agg['counters'].get('heap/whitebox_unavailable', 0)
    return ([f'the allocator instance does not have the chunk table / free list / current_size of the pinned implementation ({n} monitors): the tiling clause and the '
            'exact high-water mark were not evaluated; overlap, coalescing and the high-water lower bound were decided at the client boundary'] if n else []) + _blind_notes(agg['counters'])


def _blind_notes(c):
    return [f'the signal-memory sanitizer could not attribute {c[k]} accesses to an operation (counter {k}): the kernels are not entered through the hooked '
            'names / loops any more, so it switched itself off for those simulators; the static lifetime check of the published tables and the differential '
            'runs decided alone' for k in ('san/unattributed', 'lsan/unattributed') if c.get(k, 0)]


def conclude(agg):
    c = agg['counters']
    r = [f'monitor counter {k} is zero' for k in ('heap_events', 'heap/b_reuse_split', 'heap/b_free_merge2', 'heap/b_free_top_cascade', 'heap/b_reuse_exact', 'heap/b_gap_rule_checks',
                                                  'map/sharing_pairs', 'map/alias_lines', 'san/reads', 'san/capture_reads', 'lsan/operand_checks', 'lsan/capture_rows', 'exhaustive_histories',
                                                  'simops_heap_events', 'reached/heap-split', 'reached/heap-merge-next', 'reached/heap-merge-prev',
                                                  'reached/heap-tail-cascade', 'corpus_circuits')
         if c.get(k, 0) == 0 and not (k.startswith('san/') and c.get('san/unattributed', 0)) and not (k.startswith('lsan/') and c.get('lsan/unattributed', 0))]
    return r


def _sim():
    import kyupy.sim as S
    return S


def heap_history(ctx, hist, states, label):
    """hist: list of ('a', size) / ('f', k) where k selects the k-th live location (sorted)"""
    S = _sim()
    rep = []
    mons = []
    Mon, Base = I.monitored_heap_class(S, mons, lambda k, m: rep.append((k, m)))
    h = Mon()
    h.mon.states = states
    case = {'kind': 'heap', 'history': hist}
    with ctx.guard('allocator-raises', case):
        for e in hist:
            if e[0] == 'a':
                h.alloc(e[1])
            else:
                live = h.mon.live_starts
                if live:
                    h.free(live[e[1] % len(live)])
    h.mon.final_check()
    for k, m in rep[:2]:
        ctx.violation(k, f'{m}; history {hist}', case)
    for k, v in h.mon.stats.items():
        ctx.count('heap/' + k, v)
    ctx.count('heap_events', len(hist))
    nontrivial = any(e[0] == 'f' and any(x[0] == 'a' for x in hist[i + 1:]) for i, e in enumerate(hist))
    ctx.case(case, nontrivial, key=hist)
    return h


def heap_random(ctx, spec):
    states = set()
    for i in range(spec['n']):
        rng = random.Random(f'C08h/{spec["seed"]}/{spec["shard"]}/{i}')
        alpha = rng.choice(ALPHABETS)
        pfree = rng.uniform(0.3, 0.6)
        hist = []
        nlive = 0
        for _ in range(rng.randint(1, 40)):
            if nlive and rng.random() < pfree:
                hist.append(('f', rng.randrange(1 << 16)))
                nlive -= 1
            else:
                hist.append(('a', rng.choice(alpha)))
                nlive += 1
        heap_history(ctx, hist, states, 'rand')
        if i < 2:
            ctx.sample({'allocator_history': hist})
    ctx.count('distinct_allocator_states', len(states))
    for s in list(states)[:3000]:
        ctx.hit('allocator_states_sample', str(hash(s) & 0xffffffff))


def heap_exhaustive(ctx, spec):
    """every history of length <= L over sizes {1,2,3} that starts with alloc(first)"""
    L = spec['L']
    states = set()
    n = 0
    stack = [[('a', spec['first'])]]
    while stack:
        hist = stack.pop()
        h = heap_history(ctx, hist, states, 'exh')
        n += 1
        if len(hist) < L:
            for sz in (1, 2, 3):
                stack.append(hist + [('a', sz)])
            for k in range(len(h.mon.live_starts)):
                stack.append(hist + [('f', k)])
    ctx.count('exhaustive_histories', n)
    ctx.count('distinct_allocator_states', len(states))
    ctx.sample({'exhaustive_over': {'sizes': [1, 2, 3], 'max_len': L, 'first': spec['first'], 'histories': n, 'states': len(states)}})


def map_case(ctx, case, circuit=None, b=None):
    """construct a real simulator under the allocator monitor; check the published map; run the sanitizer"""
    S = _sim()
    rep = []
    mons = []
    kind = case['simkind']
    if circuit is None:
        r = WC.materialize(case)
        circuit, b = r.b.c, r.b
    else:
        r = None
    Mon, Base = I.monitored_heap_class(S, mons, lambda k, m: rep.append((k, m)))
    S.Heap = Mon
    sim = None
    with ctx.guard('scheduler-raises', case):
        try:
            if kind == 'simops':
                caps = case['caps'] if not isinstance(case['caps'], str) else r.caps
                sim = S.SimOps(circuit, c_caps=caps, c_caps_min=case.get('caps_min', 1), c_reuse=case['c_reuse'], strip_forks=case['strip_forks'])
            elif kind == 'logic':
                from kyupy.logic_sim import LogicSim
                sim = LogicSim(circuit, sims=8, m=case.get('m', 8), c_reuse=case['c_reuse'], strip_forks=case['strip_forks'])
            else:
                sim = WC.make_sim(r)
        finally:
            S.Heap = Base
    if sim is None:
        return
    if mons:
        mons[0].final_check()
    for k, m in rep[:2]:
        ctx.violation(k, f'inside SimOps: {m}', case)
    if mons:
        ctx.count('simops_heap_events', len(mons[0].events))
        for k, v in mons[0].stats.items():
            ctx.count('heap/' + k, v)
        for m in I.alloc_free_interleaving(mons[0].events, sim):
            ctx.violation('release-within-level', m, case)
        if int(sim.c_len) < mons[0].max_end:
            ctx.violation('map-total-size', f'c_len is {sim.c_len} but the allocator handed out a region ending at {mons[0].max_end}', case)
        elif mons[0].whitebox and int(sim.c_len) < mons[0].high:
            # (a total size larger than the extent - padding, alignment - is within the property: signals stay inside the reported size)
            ctx.violation('map-total-size', f'c_len is {sim.c_len} but the allocator extent reached {mons[0].high}', case)
    bad, st = I.inv_memmap(sim, circuit, case['strip_forks'], case['c_reuse'])
    for m in bad[:2]:
        ctx.violation('memory-map', m + (f'; {G.net_text(case["net"])[:300]}' if 'net' in case else ''), case)
    for k, v in st.items():
        ctx.count('map/' + k, v)
    nontrivial = st['sharing_pairs'] > 0
    if kind == 'wave' and not bad:
        rep2 = []
        san = shadow.Sanitizer(sim, circuit, lambda k, m: rep2.append((k, m)), case['strip_forks'])
        with ctx.guard('simulation-raises', case):
            WC.simulate(r, sim)
            if case.get('twice'):
                WC.simulate(r, sim)      # second epoch on the same memory
        for k, m in rep2[:2]:
            ctx.violation('sanitizer-' + k, f'{m}; {case["cls"]} reuse={case["c_reuse"]} strip={case["strip_forks"]} caps={case["caps"]}; {G.net_text(case["net"])[:300]}', case)
        for k, v in san.stats.items():
            if k != 'max_level_width':
                ctx.count('san/' + k, v)
    if kind == 'logic' and not bad and 'net' in case:
        from .. import shadow_logic
        rep3 = []
        lsan = shadow_logic.LogicSanitizer(sim, circuit, lambda k, m: rep3.append((k, m)), case['strip_forks'])
        with ctx.guard('simulation-raises', case):
            nrng = np.random.default_rng(case['stim_seed'])
            for _ in range(2 if case.get('twice') else 1):
                sim.s[0] = nrng.integers(0, 256, size=sim.s[0].shape, dtype=np.uint8)
                sim.s_to_c()
                sim.c_prop()
                sim.c_to_s()
        for k, m in rep3[:2]:
            ctx.violation('logic-sanitizer-' + k, f'{m}; LogicSim m={case.get("m")} reuse={case["c_reuse"]} strip={case["strip_forks"]}; {G.net_text(case["net"])[:300]}', case)
        for k, v in lsan.stats.items():
            ctx.count('lsan/' + k, v)
    if 'net' in case:
        ctx.case(case, nontrivial, key=WC.key_of(case) + [kind])
        ctx.sample({'netlist': G.net_text(case['net'])[:300], 'simkind': kind, 'c_reuse': case['c_reuse'], 'strip_forks': case['strip_forks'], 'caps': case['caps'],
                    'address_sharing_pairs': st['sharing_pairs']})
    else:
        ctx.case(case, nontrivial, key=case)


def corpus(ctx, spec):
    from kyupy import bench, verilog
    from kyupy.techlib import SAED32, SAED90
    tests = os.path.join(REPO, 'tests')
    items = [('b01.bench', None, lambda: bench.load(os.path.join(tests, 'b01.bench'))),
             ('b01.v', SAED90, lambda: verilog.load(os.path.join(tests, 'b01.v'), tlib=SAED90)),
             ('gates.v', SAED90, lambda: verilog.load(os.path.join(tests, 'gates.v'), tlib=SAED90, branchforks=True)),
             ('rng_haltonBase2.synth_yosys.v', SAED90, lambda: verilog.load(os.path.join(tests, 'rng_haltonBase2.synth_yosys.v'), tlib=SAED90))]
    if spec.get('big'):
        items.append(('b15_2ig.v.gz', SAED32, lambda: verilog.load(os.path.join(tests, 'b15_2ig.v.gz'), tlib=SAED32, branchforks=True)))
    for name, tlib, loader in items:
        case0 = {'kind': 'corpus', 'file': name}
        with ctx.guard('corpus-load', case0):
            c = loader()
            if isinstance(c, list):
                c = c[0]
            if tlib is not None:
                c.resolve_tlib_cells(tlib)
            ctx.count('corpus_circuits')
            for reuse in (False, True):
                for strip in (False, True):
                    case = {'kind': 'corpus', 'file': name, 'simkind': 'simops', 'caps': 16, 'caps_min': 4, 'c_reuse': reuse, 'strip_forks': strip}
                    map_case(ctx, case, circuit=c)


def run(spec, ctx):
    kind = spec['kind']
    if kind == 'heap-rand':
        heap_random(ctx, spec)
    elif kind == 'heap-exh':
        heap_exhaustive(ctx, spec)
    elif kind == 'corpus':
        corpus(ctx, spec)
    else:
        for i in range(spec['n']):
            rng = random.Random(f'C08m/{spec["seed"]}/{spec["shard"]}/{i}')
            case = WC.gen_case(rng, max_gates=40)
            case['simkind'] = rng.choice(['wave', 'wave', 'wave', 'logic', 'simops'])
            case['c_reuse'] = rng.random() < 0.7
            case['twice'] = rng.random() < 0.3
            if case['simkind'] == 'logic':
                case['m'] = rng.choice([2, 4, 8])
            if case['simkind'] == 'simops':
                case['caps_min'] = rng.choice([1, 2, 4])
            map_case(ctx, case)


def replay(case, ctx):
    if case.get('kind') == 'heap':
        heap_history(ctx, [tuple(e) for e in case['history']], set(), 'replay')
    elif case.get('kind') == 'corpus':
        corpus(ctx, {'big': case['file'].startswith('b15')})
    else:
        map_case(ctx, case)
