"""C12 - multi-valued operators agree across both storage formats and with the documented algebra."""
import itertools
import random

import numpy as np

from .. import ref_mv as R
from ..enc import to_bp, from_bp, v2s

ID = 'C12'
TECHNIQUE = 'runtime monitoring: exhaustive operand enumeration through the real operators against an independent algebra model, cross-format differential'
LEVEL_TEXT = ('Every operand tuple (k=1..4, all 8 values; all 4 values for bp4v) is executed through the real mv_*/bp8v_*/bp4v_* functions and compared '
              'lane by lane with an independent model of the documented algebra and across formats; shapes, broadcasting and out= are sampled. '
              'Exhaustive over values, sampled over shapes.')
LEVEL_NOTE = 'trusted: vk/ref_mv.py (self-checked against the tables printed in tests/test_logic.py), vk/enc.py bit packing, numpy'
DESIGN_REF = 'DESIGN.md section 3 C12'
LEVEL = 'exploration'
EXHAUSTIVE = True
RULE = ('Exhaustive: every operand tuple over the 8 values for k=1..4 operands (8+64+512+4096 tuples) x {NOT(k=1),BUF(k=1),'
        'AND,OR,XOR} in the array (mv_*) and bit-parallel (bp8v_*) forms, and every tuple over {0,X,-,1} for bp4v_*; '
        'each tuple sits in one lane of a seeded random lane permutation padded with random neighbours (lane independence). '
        'Randomised: N-D shapes with broadcasting for mv_*, leading dimensions for bp*, caller supplied out=. '
        'A case is one (operator, operand tuple); it is non-trivial iff the tuple contains a value outside {0,1}; '
        'distinct = distinct (operator, tuple).'
        ' Plus whole arrays drawn from sub-alphabets, single-operand bit-parallel AND/OR/XOR (operator results compared exactly), non-contiguous out= and operands, operands of different rank, arrays of 65537-131073 elements.')
ASSUMPTIONS = ["X and '-' are one class when comparing the plain copy (buf) and in the sampled shape/out= parts; in the exhaustive part operator results are compared exactly (operators produce X for an unassigned operand)",
               'bit-parallel operands of one call have identical shapes; out= never aliases an input of mv_*',
               'the algebra model is the documented rule set, self-checked against the 4x64 tables printed in tests/test_logic.py']
REACH = {'logic.mv_ops': ('logic.py', 123, 215), 'logic.bp_ops': ('logic.py', 283, 388)}

OPS = {'and': R.v_and, 'or': R.v_or, 'xor': R.v_xor}
# codes: 0 '0', 1 'X', 2 '-', 3 '1', 4 'P', 5 'R', 6 'F', 7 'N'
SUB_ALPHABETS = ([0, 3], [0, 3, 4, 5, 6, 7], [0, 3, 5, 6], [5, 6], [4, 7], [0, 1, 3], [0, 2, 3], [0, 4, 5, 6, 7], [3, 4, 5, 6, 7], [0], [3], [1, 2])


def plan(tier, seed):
    specs = [{'kind': 'exh', 'k': k} for k in (1, 2, 3, 4)]
    nrand = 8 if tier == 'quick' else 14
    specs += [{'kind': 'rand', 'n': 400 if tier == 'quick' else 8000, 'sub': i} for i in range(nrand)]
    specs += [{'kind': 'out', 'n': 1500 if tier == 'quick' else 30000}]
    return specs


def conclude(agg):
    r = []
    c = agg['counters']
    if c.get('selfcheck_bad', 0):
        r.append('algebra model disagrees with the tables published in tests/test_logic.py')
    for k in ('tuples/k1', 'tuples/k2', 'tuples/k3', 'tuples/k4', 'out_calls', 'rand_shapes', 'tuples4/k4', 'big_array_calls', 'sub_alphabet_arrays'):
        if c.get(k, 0) == 0:
            r.append(f'monitor counter {k} is zero')
    return r


def _logic():
    import kyupy.logic as lg
    return lg


def canon_arr(a):
    a = np.asarray(a).copy()
    a[a == R.UNASSIGNED] = R.UNKNOWN
    return a


def fold_mv(lg, name, cols):
    f = getattr(lg, 'mv_' + name)
    acc = f(cols[0], cols[1])
    for c in cols[2:]:
        acc = f(acc, c)
    return acc


def check_tuples(ctx, vals, k, planes, rng, lane_pad, tag=None):
    """vals: alphabet (list of codes); all tuples of length k placed on permuted lanes with random padding."""
    lg = _logic()
    tuples = list(itertools.product(vals, repeat=k))
    lanes = tuples + [tuple(rng.choice(vals) for _ in range(k)) for _ in range(lane_pad)]
    rng.shuffle(lanes)
    n = len(lanes)
    cols = [np.array([t[i] for t in lanes], dtype=np.uint8) for i in range(k)]
    bps = [to_bp(c[np.newaxis, :], planes) for c in cols]     # (1, planes, nb)
    pre = 'bp8v_' if planes == 3 else 'bp4v_'
    tag = ('' if planes == 3 else '4') + (tag or '')
    results = {}
    case0 = {'kind': 'tuples', 'k': k, 'planes': planes}

    def run(label, fn):
        with ctx.guard('operator-raises', dict(case0, op=label)):
            results[label] = fn()

    ops = ['not', 'buf', 'and', 'or', 'xor'] if k == 1 else ['and', 'or', 'xor']       # a single operand is a legal operand count of the bit-parallel AND/OR/XOR
    for op in ops:
        # operators produce X for an unassigned operand; only the plain copy may keep '-'
        cn = canon_arr if op == 'buf' else (lambda a_: np.asarray(a_))
        # reference
        if op == 'not':
            ref = np.array([R.v_not(t[0]) for t in lanes], dtype=np.uint8)
        elif op == 'buf':
            ref = np.array([t[0] for t in lanes], dtype=np.uint8)
        else:
            ref = np.array([OPS[op](*t) for t in lanes], dtype=np.uint8)
        if planes == 2:
            ref = ref & 3
        # code under test
        if planes == 3 and op != 'buf' and not (k == 1 and op != 'not'):
            if op == 'not':
                run(f'mv_{op}', lambda: lg.mv_not(cols[0]))
            elif k == 2:
                run(f'mv_{op}', lambda: getattr(lg, 'mv_' + op)(cols[0], cols[1]))
            else:
                run(f'mv_{op}', lambda: fold_mv(lg, op, cols))
                if hasattr(lg, '_mv_' + op):   # the k-ary array form, if the tree still has it
                    def kary():
                        o = np.empty(n, dtype=np.uint8)
                        getattr(lg, '_mv_' + op)(o, *cols)
                        return o
                    run(f'_mv_{op}', kary)

        def bp():
            o = np.full((1, planes, bps[0].shape[-1]), 0xA5, dtype=np.uint8)
            getattr(lg, pre + op)(o, *bps)
            return from_bp(o, n)[0]
        run(pre + op, bp)
        if op in ('not', 'buf'):
            def bp_inplace():
                o = bps[0].copy()
                getattr(lg, pre + op)(o, o)      # LogicSim negates in place: bp?v_not(c[o0], c[o0])
                return from_bp(o, n)[0]
            run(pre + op + '(in place)', bp_inplace)
        for label, got in list(results.items()):
            got = np.asarray(got)
            if got.shape != ref.shape:
                ctx.violation('operator-shape', f'{label}: shape {got.shape} != {ref.shape}', dict(case0, op=label))
                continue
            bad = np.flatnonzero(cn(got) != cn(ref))
            for b in bad[:3]:
                ctx.violation('operator-vs-algebra',
                              f'{label}({v2s(lanes[b])}) = {R.CHARS[int(got[b])]} but the documented algebra gives {R.CHARS[int(ref[b])]} '
                              f'(lane {b} of {n})', {'kind': 'tuple', 'op': label, 'tuple': list(lanes[b]), 'planes': planes})
            ctx.count(f'lane_checks/{label}', n)
        # cross-format: array form vs bit-parallel form
        if f'mv_{op}' in results and pre + op in results:
            a, b = np.asarray(results[f'mv_{op}']), np.asarray(results[pre + op])
            if a.shape == b.shape and not np.array_equal(canon_arr(a), canon_arr(b)):
                i = int(np.flatnonzero(canon_arr(a) != canon_arr(b))[0])
                ctx.violation('array-vs-bitparallel', f'{op}({v2s(lanes[i])}): mv gives {R.CHARS[int(a[i])]}, bp gives {R.CHARS[int(b[i])]}',
                              {'kind': 'tuple', 'op': op, 'tuple': list(lanes[i]), 'planes': planes})
        results.clear()
        for t in tuples:
            ctx.case(None, any(v not in (R.ZERO, R.ONE) for v in t), key=[op, planes, list(t)])
    ctx.count(f'tuples{tag}/k{k}', len(tuples))
    if k == 2:
        demorgan(ctx, lg, planes, vals)


def demorgan(ctx, lg, planes, vals):
    """NOT(AND(a,b)) == OR(NOT a, NOT b) and dual, both formats; Boolean restriction."""
    pairs = list(itertools.product(vals, repeat=2))
    a = np.array([p[0] for p in pairs], dtype=np.uint8)
    b = np.array([p[1] for p in pairs], dtype=np.uint8)
    n = len(pairs)
    pre = 'bp8v_' if planes == 3 else 'bp4v_'
    case = {'kind': 'demorgan', 'planes': planes}
    with ctx.guard('operator-raises', case):
        def bpop(op, *xs):
            o = np.zeros((1, planes, (n + 7) // 8), dtype=np.uint8)
            getattr(lg, pre + op)(o, *xs)
            return o
        A, B = to_bp(a[None], planes), to_bp(b[None], planes)
        l1 = from_bp(bpop('not', bpop('and', A, B)), n)[0]
        r1 = from_bp(bpop('or', bpop('not', A), bpop('not', B)), n)[0]
        l2 = from_bp(bpop('not', bpop('or', A, B)), n)[0]
        r2 = from_bp(bpop('and', bpop('not', A), bpop('not', B)), n)[0]
        checks = [('bp', l1, r1), ('bp-dual', l2, r2)]
        if planes == 3:
            checks.append(('mv', lg.mv_not(lg.mv_and(a, b)), lg.mv_or(lg.mv_not(a), lg.mv_not(b))))
            checks.append(('mv-dual', lg.mv_not(lg.mv_or(a, b)), lg.mv_and(lg.mv_not(a), lg.mv_not(b))))
        for label, l, r in checks:
            ctx.count('demorgan_pairs', n)
            bad = np.flatnonzero(canon_arr(l) != canon_arr(r))
            for i in bad[:2]:
                ctx.violation('de-morgan', f'{label}: NOT(a.b) != NOTa + NOTb for a,b={v2s(pairs[i])}: {R.CHARS[int(l[i])]} vs {R.CHARS[int(r[i])]}',
                              dict(case, pair=list(pairs[i]), form=label))
        # Boolean restriction
        for x, y in itertools.product((R.ZERO, R.ONE), repeat=2):
            xa, ya = np.array([x], dtype=np.uint8), np.array([y], dtype=np.uint8)
            bx, by = (x == R.ONE), (y == R.ONE)
            exp = {'and': bx and by, 'or': bx or by, 'xor': bx != by}
            for op, e in exp.items():
                got = [from_bp(bpop(op, to_bp(xa[None], planes), to_bp(ya[None], planes)), 1)[0][0]]
                if planes == 3:
                    got.append(getattr(lg, 'mv_' + op)(xa, ya)[0])
                for g in got:
                    ctx.count('boolean_checks')
                    if int(g) != (R.ONE if e else R.ZERO):
                        ctx.violation('boolean-restriction', f'{op}({x},{y}) = {g}', dict(case, op=op, x=x, y=y))


def rand_shapes(ctx, rng, nrng, n):
    lg = _logic()
    for _ in range(n):
        nd = rng.randint(0, 3)
        shape = tuple(rng.randint(1, 5) for _ in range(nd))
        op = rng.choice(['not', 'and', 'or', 'xor'])
        case = {'kind': 'shape', 'op': op, 'shape': list(shape)}
        # mv with broadcasting
        def bshape():
            return tuple(1 if rng.random() < 0.3 else s for s in shape)
        s1, s2 = bshape(), bshape()
        if nd >= 2 and rng.random() < 0.3:
            # operands of different rank: numpy broadcasting aligns trailing axes
            k = rng.randint(1, nd - 1)
            if rng.random() < 0.5:
                s2 = s2[k:]
            else:
                s1 = s1[k:]
            ctx.count('rank_mismatch_broadcasts')
        alpha_mv = np.array(rng.choice(SUB_ALPHABETS) if rng.random() < 0.4 else list(range(8)), dtype=np.uint8)
        x1 = alpha_mv[nrng.integers(0, len(alpha_mv), size=s1)]
        x2 = alpha_mv[nrng.integers(0, len(alpha_mv), size=s2)]
        case.update(s1=list(s1), s2=list(s2), x1=x1.tolist(), x2=x2.tolist())
        if rng.random() < 0.3:
            x1, x2 = np.asfortranarray(x1), np.asfortranarray(x2)
        with ctx.guard('operator-raises', case):
            if op == 'not':
                got = lg.mv_not(x1)
                exp = np.vectorize(R.v_not, otypes=[np.uint8])(x1) if x1.size else x1
            else:
                got = getattr(lg, 'mv_' + op)(x1, x2)
                b1, b2 = np.broadcast_arrays(x1, x2)
                exp = np.vectorize(OPS[op], otypes=[np.uint8])(b1, b2)
            got = np.asarray(got)
            if got.shape != exp.shape:
                ctx.violation('operator-shape', f'mv_{op}: result shape {got.shape}, expected {exp.shape}', case)
            elif not np.array_equal(canon_arr(got), canon_arr(exp)):
                ctx.violation('operator-vs-algebra', f'mv_{op} on shapes {s1},{s2}: {got.tolist()} != {exp.tolist()}', case)
        # bp with leading dims and odd lane counts
        lanes = rng.randint(1, 37)
        lead = tuple(rng.randint(1, 4) for _ in range(rng.randint(0, 2)))
        k = 1 if op == 'not' else rng.randint(2, 4)
        planes = rng.choice([2, 3])
        alpha = 8 if planes == 3 else 4
        sub = np.array(rng.choice(SUB_ALPHABETS) if (planes == 3 and rng.random() < 0.4) else list(range(alpha)), dtype=np.uint8)
        xs = [sub[nrng.integers(0, len(sub), size=lead + (lanes,))] for _ in range(k)]
        case2 = {'kind': 'bpshape', 'op': op, 'planes': planes, 'lead': list(lead), 'lanes': lanes, 'xs': [x.tolist() for x in xs]}
        with ctx.guard('operator-raises', case2):
            bps = [to_bp(x, planes) for x in xs]
            lay = rng.choice(['c', 'c', 'strided', 'fortran'])
            o = make_out(lead + (planes, (lanes + 7) // 8), 0x5A, lay)
            if lay != 'c':
                bps = [np.asfortranarray(x) if rng.random() < 0.5 else x for x in bps]
                ctx.count('bp_noncontiguous')
            getattr(lg, ('bp8v_' if planes == 3 else 'bp4v_') + op)(o, *bps)
            got = from_bp(o, lanes)
            f = R.v_not if op == 'not' else OPS[op]
            exp = np.vectorize(f, otypes=[np.uint8])(*xs)
            if planes == 2:
                exp = exp & 3
            if not np.array_equal(canon_arr(got), canon_arr(exp)):
                ctx.violation('operator-vs-algebra', f'bp{planes} {op} k={k} lead={lead} lanes={lanes} mismatch', case2)
        ctx.count('rand_shapes', 2)
        ctx.case(case2, any(int(v) not in (0, 3) for x in xs for v in x.flat), key=case2)
        ctx.sample({'op': op, 'mv_shapes': [list(s1), list(s2)], 'bp': {'planes': planes, 'lead': list(lead), 'lanes': lanes, 'k': k}})


def make_out(shape, init, layout):
    """a caller-supplied result array of the given shape: C-contiguous, or a view that is not (transposed, strided, one plane of a larger buffer, Fortran order)"""
    shape = tuple(shape)
    if layout == 'transposed' and len(shape) >= 2:
        return np.full(shape[::-1], init, dtype=np.uint8).T
    if layout == 'strided' and len(shape) >= 1:
        big = np.full(shape[:-1] + (shape[-1] * 2 + 1,), init, dtype=np.uint8)
        return big[..., 1::2]
    if layout == 'plane' and len(shape) >= 1:
        big = np.full(shape[:-1] + (3,) + shape[-1:], init, dtype=np.uint8)
        return big[..., 1, :] if len(shape) >= 1 else big
    if layout == 'fortran' and len(shape) >= 2:
        return np.full(shape, init, dtype=np.uint8, order='F')
    return np.full(shape, init, dtype=np.uint8)


def big_cases(ctx, rng, nrng):
    """arrays well above 65536 elements (an implementation may process large arrays in blocks): every element, with and without out="""
    lg = _logic()
    tabs = {op: np.array([[f(a, b) for b in range(8)] for a in range(8)], dtype=np.uint8) for op, f in OPS.items()}
    tnot = np.array([R.v_not(a) for a in range(8)], dtype=np.uint8)
    for shape in ((65537,), (70001,), (300, 300), (2, 40000), (131073,)):
        for op in ('not', 'and', 'or', 'xor'):
            x1 = nrng.integers(0, 8, size=shape, dtype=np.uint8)
            x2 = nrng.integers(0, 8, size=shape, dtype=np.uint8)
            exp = tnot[x1] if op == 'not' else tabs[op][x1, x2]
            case = {'kind': 'big', 'op': op, 'shape': list(shape)}
            with ctx.guard('operator-raises', case):
                for use_out in (False, True):
                    o = np.full(shape, 0x55, dtype=np.uint8) if use_out else None
                    ret = lg.mv_not(x1, out=o) if op == 'not' else getattr(lg, 'mv_' + op)(x1, x2, out=o)
                    got = o if use_out else np.asarray(ret)
                    ctx.count('big_array_calls')
                    if got.shape != exp.shape or not np.array_equal(canon_arr(got), canon_arr(exp)):
                        idx = np.argwhere(canon_arr(got) != canon_arr(exp))[:1].tolist() if got.shape == exp.shape else 'shape'
                        ctx.violation('operator-vs-algebra', f'mv_{op} on an array of shape {shape} (out= {"given" if use_out else "not given"}): wrong at index {idx}', case)
                        break
                # bit-parallel form with that many lanes
                planes = 3
                bps = [to_bp(x.reshape(-1)[None], planes) for x in ((x1,) if op == 'not' else (x1, x2))]
                o = np.full_like(bps[0], 0x5A)
                getattr(lg, 'bp8v_' + op)(o, *bps)
                got = from_bp(o, x1.size)[0]
                if not np.array_equal(canon_arr(got), canon_arr(exp.reshape(-1))):
                    ctx.violation('operator-vs-algebra', f'bp8v_{op} with {x1.size} lanes: wrong at lane {int(np.flatnonzero(canon_arr(got) != canon_arr(exp.reshape(-1)))[0])}', case)
            ctx.case(case, True, key=case)


def out_cases(ctx, rng, nrng, n):
    lg = _logic()
    big_cases(ctx, rng, nrng)
    for i in range(n):
        op = rng.choice(['not', 'and', 'or', 'xor'])
        nd = rng.randint(0, 3) if i > 8 else (0 if i < 4 else 1)
        shape = tuple(rng.randint(1, 6) for _ in range(nd))
        x1 = nrng.integers(0, 8, size=shape, dtype=np.uint8)
        x2 = nrng.integers(0, 8, size=shape, dtype=np.uint8)
        if i % 4 == 0:   # the result is ZERO everywhere: a falsy 1-element out must still be used
            x1 = np.zeros(shape, dtype=np.uint8) if op != 'not' else np.full(shape, R.ONE, dtype=np.uint8)
            x2 = np.zeros(shape, dtype=np.uint8)
        init = rng.choice([0, 0, 7, 0x55])
        layout = rng.choice(['c', 'c', 'transposed', 'strided', 'plane', 'fortran']) if i > 12 else 'c'
        o = make_out(shape, init, layout)
        case = {'kind': 'out', 'op': op, 'shape': list(shape), 'x1': x1.tolist(), 'x2': x2.tolist(), 'init': init, 'layout': layout}
        ctx.count('out_layout/' + layout)
        f = R.v_not if op == 'not' else OPS[op]
        exp = np.vectorize(f, otypes=[np.uint8])(x1) if op == 'not' else np.vectorize(f, otypes=[np.uint8])(x1, x2)
        exp = np.asarray(exp, dtype=np.uint8).reshape(shape)
        with ctx.guard('out-argument', case):
            ret = lg.mv_not(x1, out=o) if op == 'not' else getattr(lg, 'mv_' + op)(x1, x2, out=o)
            if not np.array_equal(canon_arr(o), canon_arr(exp)):
                ctx.violation('out-argument', f'mv_{op}(..., out=o) shape {shape}: o holds {o.tolist()} expected {exp.tolist()}', case)
            elif not np.array_equal(canon_arr(np.asarray(ret)), canon_arr(exp)):
                ctx.violation('out-argument', f'mv_{op}(..., out=o) returned {np.asarray(ret).tolist()} expected {exp.tolist()}', case)
        ctx.count('out_calls')
        ctx.case(case, True, key=case)
        ctx.sample(case)


def run(spec, ctx):
    bad = R.self_check()
    if bad:
        ctx.count('selfcheck_bad', len(bad))
        ctx.note(f'ref_mv self check failed: {bad[:3]}')
        return
    rng = random.Random(f'C12/{spec["seed"]}/{spec["shard"]}')
    nrng = np.random.default_rng([spec['seed'], spec['shard'], 12])
    if spec['kind'] == 'exh':
        k = spec['k']
        pad = rng.randint(1, 13)
        check_tuples(ctx, list(range(8)), k, 3, rng, pad)
        check_tuples(ctx, [0, 1, 2, 3], k, 2, rng, pad)
        # whole arrays drawn from a sub-alphabet (no unknown anywhere, Boolean only, transitions only, ...): an implementation may
        # take a different path when some class of values is absent from the entire array
        for alpha in SUB_ALPHABETS:
            check_tuples(ctx, alpha, k, 3, rng, rng.randint(0, 5), tag='sub')
            ctx.count('sub_alphabet_arrays')
        for alpha in ([0, 3], [0, 1, 3], [0, 2, 3], [1, 2]):
            check_tuples(ctx, alpha, k, 2, rng, rng.randint(0, 5), tag='sub')
        if k == 2:
            ctx.sample({'k': 2, 'op': 'and', 'tuple': 'RF', 'expected': 'P'})
    elif spec['kind'] == 'rand':
        rand_shapes(ctx, rng, nrng, spec['n'])
    elif spec['kind'] == 'out':
        out_cases(ctx, rng, nrng, spec['n'])


def replay(case, ctx):
    lg = _logic()
    kind = case.get('kind')
    if kind == 'tuple':
        t = case['tuple']
        op = case['op'].replace('mv_', '').replace('bp8v_', '').replace('bp4v_', '').lstrip('_')
        rng = random.Random(0)
        alpha = list(range(8)) if case.get('planes', 3) == 3 else [0, 1, 2, 3]
        check_tuples(ctx, alpha, len(t), case.get('planes', 3), rng, 0)
    elif kind == 'out':
        x1 = np.array(case['x1'], dtype=np.uint8).reshape(case['shape'])
        x2 = np.array(case['x2'], dtype=np.uint8).reshape(case['shape'])
        o = make_out(case['shape'], case['init'], case.get('layout', 'c'))
        op = case['op']
        f = R.v_not if op == 'not' else OPS[op]
        exp = np.vectorize(f, otypes=[np.uint8])(x1) if op == 'not' else np.vectorize(f, otypes=[np.uint8])(x1, x2)
        exp = np.asarray(exp, dtype=np.uint8).reshape(case['shape'])
        with ctx.guard('out-argument', case):
            ret = lg.mv_not(x1, out=o) if op == 'not' else getattr(lg, 'mv_' + op)(x1, x2, out=o)
            if not np.array_equal(canon_arr(o), canon_arr(exp)) or not np.array_equal(canon_arr(np.asarray(ret)), canon_arr(exp)):
                ctx.violation('out-argument', f'mv_{op}(..., out=o): o={o.tolist()} expected {exp.tolist()}', case)
        ctx.case(case, True)
    else:
        rng = random.Random(1)
        nrng = np.random.default_rng(1)
        for k in (1, 2, 3, 4):
            check_tuples(ctx, list(range(8)), k, 3, rng, 3)
            check_tuples(ctx, [0, 1, 2, 3], k, 2, rng, 3)
