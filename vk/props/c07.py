"""C07 - the published level partition is a valid parallel schedule."""
import os
import random

import numpy as np

from .. import gen_circuit as G
from .. import invariants as I
from .. import shadow
from .. import wave as W
from .. import wavecase as WC

ID = 'C07'
TECHNIQUE = 'runtime monitoring: determinacy-race detector + ownership sanitizer on the real kernels\' signal-memory accesses per level, schedule perturbation (intra-level op permutations, mock-GPU thread orders) with bit-wise comparison, structural level/release checks on the published schedule and the recorded allocator history'
LEVEL_TEXT = ('For seeded circuits x options x capacities the real WaveSim and WaveSimCuda kernels run under a shadow-memory monitor that attributes every '
              'access to an (operation, lane) actor in a level: any two actors touching one cell in a level with a write involved, or an operand not produced '
              'in an earlier level by the producer the netlist prescribes, is reported - conflict freedom of one observed execution of a barrier-synchronised '
              'level implies the same memory for every interleaving of that level. Additionally ops are permuted inside levels (LogicSim, WaveSim, WaveSimCuda) '
              'and the mock-GPU thread order is reversed / transposed / shuffled, with results and memories compared bit-wise. Held on what was generated.')
LEVEL_NOTE = 'trusted: vk/shadow.py, vk/invariants.py, vk/wave.py; real threads are not used (the mock launcher shares x/y), sub-thread interleavings are covered by the race detector argument'
DESIGN_REF = 'DESIGN.md section 3 C07, 2.3, 2.4'
LEVEL = 'exploration'
RULE = ('Cases: (circuit, c_reuse, strip_forks, capacities, delays, stimulus) from the seeded generator; per case k intra-level permutations and k mock-GPU '
        'thread orders (k=3 quick, 12 thorough). Non-trivial iff some level holds >= 2 operations and, when memory reuse is on, at least one address is '
        'handed out twice. Distinct = digest of all case fields.'
        ' One layered circuit per shard with levels several hundred operations wide (static structure + permuted runs only).')
ASSUMPTIONS = ['the scratch slot (target of cells without output line) and abuf (atomic commutative adds) are excluded from race detection',
               'LogicSim executes sequentially; for it only permutation invariance is demanded (its two scratch rows are shared by design)']
REACH = {'sim.levelize': ('sim.py', 235, 262), 'sim.alloc': ('sim.py', 285, 315), 'wave_sim.launch': ('wave_sim.py', 119, 128)}


def plan(tier, seed):
    q = tier == 'quick'
    return [{'n': 90 if q else 1200, 'k': 3 if q else 12} for _ in range(16)]


def _blind_notes(c):
    return [f'the signal-memory sanitizer could not attribute {c[k]} accesses to an operation (counter {k}): the kernels are not entered through the hooked '
            'names / loops any more, so it switched itself off for those simulators; the static lifetime check of the published tables and the differential '
            'runs decided alone' for k in ('san/unattributed', 'lsan/unattributed') if c.get(k, 0)]


def notes(agg):
    return _blind_notes(agg['counters'])


def conclude(agg):
    c = agg['counters']
    return [f'monitor counter {k} is zero' for k in ('san/reads', 'san/cells', 'permutations_run', 'thread_orders_run', 'levels_wide', 'cases/reuse_sharing',
                                                     'logic_permutations', 'level_structure_checks', 'lsan/operand_checks', 'rescheduled_after_rewiring', 'very_wide_cases')
            if c.get(k, 0) == 0 and not (k.startswith('san/') and c.get('san/unattributed', 0)) and not (k.startswith('lsan/') and c.get('lsan/unattributed', 0))]


def permute_levels(sim, nrng):
    ops = np.asarray(sim.ops)
    new = ops.copy()
    moved = 0
    for a, b in zip(sim.level_starts, sim.level_stops):
        if b - a > 1:
            p = nrng.permutation(b - a)
            new[a:b] = ops[a:b][p]
            moved += int((p != np.arange(b - a)).any())
    try:
        sim.ops[...] = new
    except ValueError:          # a read-only table: install the permuted copy instead (the simulators pass self.ops to their kernels at call time)
        sim.ops = new
    return moved


def check_case(case, ctx):
    import kyupy.sim as S
    from kyupy.logic_sim import LogicSim
    r = WC.materialize(case)
    net, b, n = r.net, r.b, r.sims
    nrng = np.random.default_rng(case['stim_seed'])
    k = case['k']
    wide = False
    sharing = 0
    with ctx.guard('simulation-raises', case):
        # ---- structural: levels, releases -------------------------------------------------------
        rep, mons = [], []
        Mon, Base = I.monitored_heap_class(S, mons, lambda kk, m: rep.append((kk, m)))
        S.Heap = Mon
        try:
            ref = WC.make_sim(r, cls='cpu')
        finally:
            S.Heap = Base
        bad, st = I.inv_memmap(ref, b.c, case['strip_forks'], case['c_reuse'])
        bad += I.alloc_free_interleaving(mons[0].events, ref)
        ctx.count('level_structure_checks')
        for m in ([] if os.environ.get('VK_C07_DYNAMIC_ONLY') else bad[:2]):
            ctx.violation('level-structure', f'{m}; reuse={case["c_reuse"]} strip={case["strip_forks"]}; {G.net_text(net)[:300]}', case)
        if bad and not os.environ.get('VK_C07_DYNAMIC_ONLY'):
            return
        sharing = st['sharing_pairs']
        widths = [int(b_ - a_) for a_, b_ in zip(ref.level_starts, ref.level_stops)]
        wide = max(widths) >= 2
        ctx.count('levels', len(widths))
        ctx.count('levels_wide', sum(1 for w in widths if w >= 2))
        ctx.hit('level_widths', str(min(max(widths), 64)))
        WC.simulate(r, ref)
        ref_s, ref_c_full = np.asarray(ref.s).copy(), np.asarray(ref.c).copy()

        # ---- sanitizer: race detector + ownership on cpu and mock-gpu kernels ---------------------
        light = bool(case.get('light'))      # very wide levels (hundreds of operations): static structure + permuted runs, without the per-access sanitizer
        for cls, mode in (() if light else (('cpu', 'default'), ('cuda', 'default'), ('cuda', 'random'))):
            rep2 = []
            sim = WC.make_sim(r, cls=cls)
            san = shadow.Sanitizer(sim, b.c, lambda kk, m: rep2.append((kk, m)), case['strip_forks'])
            shadow.THREAD_ORDER['mode'] = mode
            shadow.THREAD_ORDER['rng'] = random.Random(case['stim_seed'])
            try:
                WC.simulate(r, sim)
            finally:
                shadow.THREAD_ORDER['mode'] = 'default'
            for kk, m in rep2[:2]:
                ctx.violation('sanitizer-' + kk, f'{m}; {cls}/{mode} reuse={case["c_reuse"]} strip={case["strip_forks"]} caps={case["caps"]}; {G.net_text(net)[:300]}', case)
            for kk, v in san.stats.items():
                if kk != 'max_level_width':
                    ctx.count('san/' + kk, v)
            if rep2:
                return
            if not np.array_equal(np.asarray(sim.s)[3:], ref_s[3:]):
                ctx.violation('thread-order' if cls == 'cuda' else 'monitor-transparency', f'{cls}/{mode}: captured results differ from the plain CPU run; {G.net_text(net)[:300]}', case)
                return
            if mode != 'default':
                ctx.count('thread_orders_run')

        # ---- schedule perturbation -------------------------------------------------------------
        install_launchers()
        for j in range(k):
            cls = 'cpu' if j % 2 == 0 else 'cuda'
            sim = WC.make_sim(r, cls=cls)
            moved = permute_levels(sim, nrng)
            mode = ['reversed', 'column', 'random'][j % 3] if cls == 'cuda' else 'default'
            shadow.THREAD_ORDER['mode'] = mode
            shadow.THREAD_ORDER['rng'] = random.Random(case['stim_seed'] + j)
            try:
                WC.simulate(r, sim)
            finally:
                shadow.THREAD_ORDER['mode'] = 'default'
            ctx.count('permutations_run', 1 if moved else 0)
            if cls == 'cuda':
                ctx.count('thread_orders_run')
            if not np.array_equal(np.asarray(sim.s)[3:], ref_s[3:]):
                ctx.violation('schedule-permutation', f'{cls} thread order {mode}: results differ after permuting the operations inside the published levels; '
                              f'reuse={case["c_reuse"]} strip={case["strip_forks"]} caps={case["caps"]}; {G.net_text(net)[:300]}', case)
                return
            if not case['c_reuse'] and not W.same_waveforms(sim, sim.c, ref, ref_c_full, skip_idx=(ref.tmp_idx,)):
                # (the scratch slot is excluded: its content depends on which output-less cell ran last; so are padding rows and content behind terminators)
                ctx.violation('schedule-permutation', f'{cls} thread order {mode}: waveforms in signal memory differ after permuting the operations inside levels; {G.net_text(net)[:300]}', case)
                return
        # ---- LogicSim: permutation invariance --------------------------------------------------
        m = case['lm']
        ls0 = LogicSim(b.c, sims=8, m=m, c_reuse=case['c_reuse'], strip_forks=case['strip_forks'])
        stim = np.random.default_rng(case['stim_seed']).integers(0, 256, size=ls0.s[0].shape, dtype=np.uint8)
        ls0.s[0] = stim
        ls0.s_to_c(); ls0.c_prop(); ls0.c_to_s()
        from .. import shadow_logic
        for j in range(max(1, k // 2)):
            ls = LogicSim(b.c, sims=8, m=m, c_reuse=case['c_reuse'], strip_forks=case['strip_forks'])
            moved = permute_levels(ls, nrng)
            rep3 = []
            lsan = shadow_logic.LogicSanitizer(ls, b.c, lambda kk, mm: rep3.append((kk, mm)), case['strip_forks']) if (j == 0 and not light) else None
            ls.s[0] = stim
            ls.s_to_c(); ls.c_prop(); ls.c_to_s()
            if lsan is not None:
                for kk, v in lsan.stats.items():
                    ctx.count('lsan/' + kk, v)
                for kk, mm in rep3[:2]:
                    ctx.violation('logic-sanitizer-' + kk, f'{mm}; LogicSim m={m} (ops permuted inside levels) reuse={case["c_reuse"]} strip={case["strip_forks"]}; {G.net_text(net)[:300]}', case)
                if rep3:
                    return
            ctx.count('logic_permutations', 1 if moved else 0)
            if not np.array_equal(ls.s[1], ls0.s[1]):
                ctx.violation('schedule-permutation', f'LogicSim m={m}: results differ after permuting the operations inside the published levels; '
                              f'reuse={case["c_reuse"]} strip={case["strip_forks"]}; {G.net_text(net)[:300]}', case)
                return
    with ctx.guard('simulation-raises', case):
        from .. import graph
        what = None if case.get('light') else graph.rewire_same_counts(b.c, random.Random(case['stim_seed']), forks_only=True)
        if what:
            # same Circuit object, same node/line counts, different wiring: the schedule must be derived afresh
            ctx.count('rescheduled_after_rewiring')
            sim2 = WC.make_sim(r, cls='cpu')
            bad2, _ = I.inv_memmap(sim2, b.c, case['strip_forks'], case['c_reuse'])
            for m_ in bad2[:2]:
                ctx.violation('level-structure', f'after {what} (same circuit object): {m_}; {G.net_text(net)[:300]}', case)
            if not bad2:
                rep4 = []
                san2 = shadow.Sanitizer(sim2, b.c, lambda kk, mm: rep4.append((kk, mm)), case['strip_forks'])
                WC.simulate(r, sim2)
                for kk, mm in rep4[:2]:
                    ctx.violation('sanitizer-' + kk, f'after {what} (same circuit object): {mm}; {G.net_text(net)[:300]}', case)
    if case['c_reuse'] and sharing:
        ctx.count('cases/reuse_sharing')
    ctx.case(case, wide and (not case['c_reuse'] or sharing > 0), key=WC.key_of(case))
    ctx.sample({'netlist': G.net_text(net)[:300], 'c_reuse': case['c_reuse'], 'strip_forks': case['strip_forks'], 'caps': case['caps'],
                'level_widths': widths[:20], 'address_sharing_pairs': sharing})


def install_launchers():
    import kyupy.wave_sim as ws
    shadow.install_kernel_hooks(ws)


def run(spec, ctx):
    for i in range(spec['n']):
        rng = random.Random(f'C07/{spec["seed"]}/{spec["shard"]}/{i}')
        case = WC.gen_case(rng, max_gates=rng.choice([10, 30, 50]))
        if i % 4 == 0:
            # wide levels: many independent gates on few inputs
            case['net'] = G.gen_net(rng, n_in=rng.randint(3, 6), n_gates=rng.randint(10, 40), n_ff=rng.choice([0, 2]), feats=case['feats'])
            for g in case['net']['gates']:
                pass
        if i == 2:
            # levels several hundred operations wide (layered circuit): thresholds such as 'every 256 operations' only show here
            case['net'] = G.gen_net(rng, n_in=rng.randint(6, 12), n_gates=rng.choice([500, 700]), n_ff=rng.choice([0, 2]), feats=[], wide=rng.choice([260, 300]), style='v')
            case['light'] = True
            case['caps'] = 4
            ctx.count('very_wide_cases')
        case['c_reuse'] = rng.random() < 0.6 or i == 2
        case['k'] = spec['k'] if i != 2 else 2
        case['lm'] = rng.choice([2, 4, 8])
        case['sims'] = rng.choice([1, 2, 3, 5] * 5 + [33]) if i != 2 else 2
        check_case(case, ctx)


def replay(case, ctx):
    check_case(case, ctx)
