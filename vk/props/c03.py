"""C03 - timing simulation settles to the Boolean function for any delays / capacity."""
import random

import numpy as np

from .. import gen_circuit as G
from .. import wave as W
from .. import wavecase as WC

ID = 'C03'
TECHNIQUE = 'runtime monitoring: real WaveSim/WaveSimCuda runs; every waveform in signal memory is decoded and its initial value and parity-final value compared with an independent Boolean evaluation, incl. overflowing capacities; single-gate driver with long input waveforms'
LEVEL_TEXT = ('Seeded circuits x delay arrays (four independent entries, zero delays included) x capacities (4..32, per line) x multi-transition '
              'inputs x batch sizes x both simulator classes x options are propagated by the real code; the monitor decodes every line\'s waveform '
              '(memory reuse off) and every captured row and checks initial = f(initial inputs) and final-by-parity = f(final inputs); runs must '
              'contain overflowed waveforms (else inconclusive). A gate-level driver feeds single operations waveforms with up to 12 transitions.')
LEVEL_NOTE = 'trusted: vk/gen_circuit.py evaluator, vk/wave.py decoder; times on the dyadic grid k/4 so float32 arithmetic is exact'
DESIGN_REF = 'DESIGN.md section 3 C03'
LEVEL = 'exploration'
RULE = ('Cases: (circuit, simulator class, c_reuse, strip_forks, batch size, capacity spec, delay seed/range/dtype, stimulus seed) from the seeded '
        'generator, plus single-operation driver cases (primitive, capacity, input waveforms of 0..12 transitions). Non-trivial iff some line carries '
        '>= 2 transitions. Distinct = digest of all case fields.'
        ' One large case per shard (350-600 gates, capacities 48-72: more than 65535 memory rows); a third of the cases captures at a finite sampling time.')
ASSUMPTIONS = ['delays >= 0 and all times on the grid k/4 (k < 1024), delays k/4 (k < 64)', 'capacities are positive multiples of 4',
               'unconnected pins read constant 0']
REACH = {'wave_sim._wave_eval': ('wave_sim.py', 155, 265), 'wave_sim.capture': ('wave_sim.py', 283, 327), 'wave_sim.gpu': ('wave_sim.py', 398, 516)}
REACH_TEXT = {'overflow-branch': ('wave_sim.py', 'overflows += 1'), 'pulse-filter': ('wave_sim.py', 'previous_t = cbuf[z_mem + z_cur - 1, sim] if z_cur > 0 else TMIN')}


def plan(tier, seed):
    n = 450 if tier == 'quick' else 12000
    return [{'n': n, 'drv': 600 if tier == 'quick' else 15000} for _ in range(16)]


def conclude(agg):
    c = agg['counters']
    r = []
    for k in ('waveforms', 'overflowed_waveforms', 'capture_rows', 'driver_ops', 'reached/overflow-branch', 'reached/pulse-filter',
              'cases/cuda', 'cases/cpu', 'multi_transition_waveforms', 'reused_simulator_epochs'):
        if c.get(k, 0) == 0:
            r.append(f'monitor counter {k} is zero')
    return r


def check_case(case, ctx):
    r = WC.materialize(case)
    net, n, b = r.net, r.sims, r.b
    vi, vf = WC.expected_values(r)
    ctx.count('cases/' + case['cls'])
    nontrivial = False
    with ctx.guard('simulation-raises', case):
        from ..ref_circuit import snapshot_real
        snap = snapshot_real(b.c)
        sim = WC.make_sim(r)
        WC.simulate(r, sim, cap_time=case.get('cap_time'))
        if case.get('cap_time') is not None:
            ctx.count('captures_at_finite_time')
        if snapshot_real(b.c) != snap:
            ctx.violation('circuit-mutated', f'constructing/running the simulator changed the circuit graph; {G.net_text(net)[:400]}', case)
        if case.get('epochs', 1) > 1:
            # the same simulator object is used again with other stimuli (as in batch processing): results must not depend on what
            # an earlier run left in the input slots / signal memory.  Only the last epoch is checked below.
            for e in range(1, case['epochs']):
                case2 = dict(case, stim_seed=case['stim_seed'] + e, multi=(e % 2 == 0) and case['multi'])
                r2 = WC.materialize(case2, b=b)
                r.stim = r2.stim
                WC.simulate(r, sim, cap_time=case.get('cap_time'))
                ctx.count('reused_simulator_epochs')
            vi, vf = WC.expected_values(r)
        c = np.asarray(sim.c)
        if not case['c_reuse']:
            for li, sig in b.line_sig.items():
                loc, cap = int(sim.c_locs[li]), int(sim.c_caps[li])
                for lane in range(n):
                    init, times, term = W.decode_col(c[loc:loc + cap, lane])
                    ctx.count('waveforms')
                    if term is None:
                        ctx.violation('waveform-format', f'line {li} ({sig}) lane {lane}: no terminator inside its capacity {cap}', case)
                        return
                    if term == W.TMAX_OVL:
                        ctx.count('overflowed_waveforms')
                    if len(times) >= 2:
                        nontrivial = True
                        ctx.count('multi_transition_waveforms')
                    ei, ef = (vi[sig] >> lane) & 1, (vf[sig] >> lane) & 1
                    fin = init ^ (len(times) & 1)
                    if init != ei or fin != ef:
                        ctx.violation('settled-value', f'line {li} ({sig}) lane {lane}: waveform starts at {init} and ends at {fin} ({len(times)} transitions, '
                                      f'overflow={term == W.TMAX_OVL}); Boolean function of the initial/final inputs gives {ei}/{ef}; '
                                      f'{case["cls"]} caps={case["caps"]} strip={case["strip_forks"]}; {G.net_text(net)[:500]}', case)
                        return
        else:
            # with memory reuse only the captured rows are meaningful; count overflow markers there
            pass
        s = np.asarray(sim.s)
        for row, (kind, name) in enumerate(b.s_order):
            if kind == 'in':
                continue
            sig = name
            if kind == 'out':
                sig = next(o['sig'] for o in net['outputs'] if o['name'] == name)
                ei_all, ef_all = vi[sig], vf[sig]
            else:
                d = next(ff['d'] for ff in net['ffs'] if ff['name'] == name)
                ei_all, ef_all = (vi[d], vf[d]) if d is not None else (0, 0)
            for lane in range(n):
                ctx.count('capture_rows')
                if s[10, row, lane]:
                    ctx.count('overflowed_captures')
                    if case['c_reuse']:
                        ctx.count('overflowed_waveforms')
                gi, gf = int(s[3, row, lane]), int(s[6, row, lane])
                if gi != (ei_all >> lane) & 1 or gf != (ef_all >> lane) & 1:
                    ctx.violation('captured-settled-value', f'{kind} {name} lane {lane}: captured initial/final {gi}/{gf}, Boolean function gives '
                                  f'{(ei_all >> lane) & 1}/{(ef_all >> lane) & 1} (overflow flag {s[10, row, lane]}); {case["cls"]} caps={case["caps"]} '
                                  f'reuse={case["c_reuse"]} strip={case["strip_forks"]}; {G.net_text(net)[:500]}', case)
                    return
    ctx.case(case, nontrivial or case['c_reuse'], key=WC.key_of(case))
    ctx.sample({'netlist': G.net_text(net)[:500], **{k: case[k] for k in ('cls', 'c_reuse', 'strip_forks', 'sims', 'caps', 'kmax', 'polind', 'dtype', 'multi')},
                'stimulus_lane0': {s: r.stim[s][0] for s in list(r.stim)[:4]}})


# ---- single-operation driver: long input waveforms ------------------------------------------------

def driver_case(rng):
    prim = rng.choice(sorted(G.FUNCS))
    ar = G.FUNCS[prim][0]
    cap = rng.choice([4, 8, 16, 32])
    ins = []
    for _ in range(ar):
        init = rng.getrandbits(1)
        nt = rng.randint(0, 12)
        ts = sorted(rng.sample(range(400), nt))
        ins.append([init, [k / 4 for k in ts]])
    dl = [[[rng.randrange(0, 24) / 4 for _ in range(2)] for _ in range(2)] for _ in range(ar)]
    return {'driver': True, 'prim': prim, 'cap': cap, 'ins': ins, 'delays': dl}


def check_driver(case, ctx):
    import kyupy.sim as S
    import kyupy.wave_sim as ws
    prim, cap, ins = case['prim'], case['cap'], case['ins']
    ar = len(ins)
    # memory: zero slot (4 rows), inputs (16 rows each), output (cap rows)
    rows = 4 + 16 * ar + cap
    cbuf = np.full((rows, 1), W.TMAX, dtype=np.float32)
    c_locs = np.array([0] + [4 + 16 * i for i in range(ar)] + [4 + 16 * ar], dtype=np.int32)
    c_caps = np.array([4] + [16] * ar + [cap], dtype=np.int32)
    for i, (init, ts) in enumerate(ins):
        ent = ([W.TMIN] if init else []) + [np.float32(t) for t in ts] + [W.TMAX]
        cbuf[c_locs[1 + i]:c_locs[1 + i] + len(ent), 0] = ent
    delays = np.zeros((1, ar + 2, 2, 2), dtype=np.float32)
    for i in range(ar):
        delays[0, 1 + i] = case['delays'][i]
    opnd = [1 + i for i in range(ar)] + [0] * (4 - ar)
    op = np.array([int(getattr(S, prim)), ar + 1] + opnd + [-1, 0, 0], dtype=np.int32)
    with ctx.guard('simulation-raises', case):
        ws.wave_eval_cpu(op, cbuf, c_locs, c_caps, 0, delays, np.array([0, 0], dtype=np.int32), 0)
        init, times, term = W.decode_col(cbuf[c_locs[ar + 1]:c_locs[ar + 1] + cap, 0])
        ctx.count('driver_ops')
        f = G.FUNCS[prim][1]
        ei = f(1, *[i[0] for i in ins]) & 1
        ef = f(1, *[i[0] ^ (len(i[1]) & 1) for i in ins]) & 1
        if term is None:
            ctx.violation('waveform-format', f'{prim} cap {cap}: no terminator within capacity', case)
        elif init != ei or (init ^ (len(times) & 1)) != ef:
            ctx.violation('settled-value', f'single {prim} (capacity {cap}): output starts at {init}, ends at {init ^ (len(times) & 1)}; '
                          f'expected {ei}/{ef}; overflow={term == W.TMAX_OVL}; inputs {ins}', case)
        if term == W.TMAX_OVL:
            ctx.count('overflowed_waveforms')
            ctx.count('driver_overflows')
        if len(times) >= 2:
            ctx.count('multi_transition_waveforms')
    ctx.case(case, sum(len(i[1]) for i in ins) >= 2, key=case)


def run(spec, ctx):
    for i in range(spec['n']):
        rng = random.Random(f'C03/{spec["seed"]}/{spec["shard"]}/{i}')
        caps = 4 if i % 5 == 0 else None        # capacity 4 + XOR-rich circuits provoke overflow
        case = WC.gen_case(rng, xor_rich=True if i % 5 == 0 else None, caps=caps, large=(i == 1))
        case['epochs'] = rng.choice([1, 1, 2, 3]) if i != 1 else 1
        case['cap_time'] = rng.choice([None, None, None, 0.0, 33.25, 120.5])
        if i == 1:
            ctx.count('large_cases')
        check_case(case, ctx)
    for i in range(spec['drv']):
        rng = random.Random(f'C03d/{spec["seed"]}/{spec["shard"]}/{i}')
        check_driver(driver_case(rng), ctx)


def replay(case, ctx):
    if case.get('driver'):
        check_driver(case, ctx)
    else:
        check_case(case, ctx)
