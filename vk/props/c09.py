"""C09 - circuit graph stays consistent under every edit history."""
import pickle
import random

from .. import ref_circuit as RC

ID = 'C09'
TECHNIQUE = 'runtime monitoring: structural invariant walker over the live Circuit after every public edit of seeded random histories, plus lock-step comparison with an executable sequential model of the documented semantics (and connectivity oracles for the rewiring transformations)'
LEVEL_TEXT = ('Seeded histories of 5-80 public edits (add node, add line with implicit / free explicit pins, remove line, remove disconnected node, eliminate_1to1_forks, '
              'substitute with random implementations, copy, pickle round trip, resolve_tlib_cells) run against the real classes; after every step inv_circuit walks '
              'nodes/lines/name tables/pin lists/stats and the circuit is compared index by index with the model; the walker also runs while the real parsers load the '
              'shipped netlists. Held on the histories generated.')
LEVEL_NOTE = 'trusted: vk/ref_circuit.py (model + walker); histories stay within well-formed use as the property states'
DESIGN_REF = 'DESIGN.md section 3 C09'
LEVEL = 'exploration'
RULE = ('Cases: edit histories from a seeded generator that picks the next operation from the current state. Non-trivial iff the history contains a removal that moves '
        'another element into the hole and a later edit touches the moved element. Distinct = digest of the executed operation log.'
        ' Plus edit histories on forks with 65-300 branches; copies are compared up to renumbering.')
ASSUMPTIONS = ['well-formed use: explicit pins only on free positions, a fork has at most one driver and only implicit output pins, no self loops, nodes are removed only '
               'when disconnected and not ports, substitute only with matching pin counts',
               'pin lists are compared modulo trailing unconnected positions after copy / pickle']
REACH = {'circuit.containers': ('circuit.py', 19, 37), 'circuit.node_line': ('circuit.py', 45, 190), 'circuit.transforms': ('circuit.py', 347, 492)}

KINDS = ['__fork__', '__fork__', '__fork__', 'AND2', 'OR3', 'INV1', 'XOR2', 'DFF', 'LATCH', 'input', 'output', 'NAND2_X1', 'AOI21_X1', 'MUX2_X1', 'HA_X1', 'DFF_X1']
LIMITS = {'NAND2_X1': (2, 1), 'AOI21_X1': (3, 1), 'MUX2_X1': (3, 1), 'HA_X1': (2, 2), 'DFF_X1': (2, 2)}


def plan(tier, seed):
    q = tier == 'quick'
    return [{'n': 700 if q else 15000, 'wide': 6 if q else 120} for _ in range(15)] + [{'corpus': True, 'big': not q}]


def conclude(agg):
    c = agg['counters']
    return [f'monitor counter {k} is zero' for k in ('steps', 'op/add_node', 'op/add_line_implicit', 'op/add_line_explicit', 'op/remove_line', 'op/remove_node',
                                                     'op/eliminate', 'op/substitute', 'op/copy', 'op/pickle', 'op/resolve', 'moved_then_touched', 'corpus_circuits',
                                                     'invariant_walks', 'wide_fork_steps')
            if c.get(k, 0) == 0]


def norm(snap):
    nodes, lines, io = snap

    def strip(l):
        l = list(l)
        while l and l[-1] is None:
            l.pop()
        return l
    return [(a, b, strip(i), strip(o)) for a, b, i, o in nodes], lines, io


name_structure = RC.name_structure


def contracted_connections(c):
    """expected line set after eliminate_1to1_forks, from the pre-state (names, pins)"""
    ios = {id(n) for n in c.io_nodes}
    gone = {id(n) for n in c.forks.values() if id(n) not in ios and len(n.outs) == 1 and len(n.ins) > 0 and n.ins[0] is not None}
    exp = set()
    for l in c.lines:
        if id(l.reader) in gone:
            continue
        d, dp = l.driver, l.driver_pin
        while id(d) in gone:
            up = d.ins[0]
            d, dp = up.driver, up.driver_pin
        exp.add(((d.name, d.kind), dp, (l.reader.name, l.reader.kind), l.reader_pin))
    return exp, len(gone)


def rand_impl(rng, ni, no):
    """random implementation circuit as bench text with ni inputs and no outputs"""
    ins = [f'a{i}' for i in range(ni)]
    sigs = list(ins)
    stmts = []
    ng = 0 if no == 0 else rng.randint(1, 4)      # cells without outputs have no gates (as in the built-in libraries)
    for g in range(ng):
        k = rng.choice(['AND2', 'OR2', 'XOR2', 'INV1', 'NAND3'])
        ar = {'AND2': 2, 'OR2': 2, 'XOR2': 2, 'INV1': 1, 'NAND3': 3}[k]
        if not sigs:
            break
        stmts.append(f'w{g}={k}({",".join(rng.choice(sigs) for _ in range(ar))})')
        sigs.append(f'w{g}')
    gates = [s for s in sigs if s.startswith('w')]
    outs = []
    for j in range(no):
        cand = [g for g in gates if g not in outs]
        if not cand:
            k = len(stmts)
            src = rng.choice(sigs) if sigs else None
            if src is None:
                return None
            stmts.append(f'w{k + 10}=BUF1({src})')
            cand = [f'w{k + 10}']
            gates.append(cand[0])
            sigs.append(cand[0])
        outs.append(rng.choice(cand))
    text = f'input({",".join(ins)}) output({",".join(outs)}) ' + ' '.join(stmts)
    return text


def run_history(case, ctx):
    from kyupy.circuit import Circuit, Node, Line
    from kyupy import bench
    from kyupy.techlib import NANGATE
    rng = random.Random(case['hseed'])
    c = Circuit('h')
    m = RC.Model()
    log = []
    moved = set()        # ids of real elements that were moved into a hole
    touched_moved = False
    subst_roots = set()
    counter = 0

    def sync_check(what):
        nonlocal m
        bad = RC.inv_circuit(c)
        ctx.count('invariant_walks')
        if bad:
            ctx.violation('graph-invariant', f'after {what}: {bad[0]} (+{len(bad) - 1} more); history: {log[-12:]}', dict(case, log=log))
            return False
        return True

    def compare(what):
        a, b_ = norm(RC.snapshot_real(c)), norm(m.snapshot())
        if a != b_:
            for part, x, y in zip(('nodes', 'lines', 'io'), a, b_):
                if x != y:
                    k = next((i for i, (p, q) in enumerate(zip(x, y)) if p != q), min(len(x), len(y)))
                    ctx.violation('model-mismatch', f'after {what}: {part}[{k}] is {x[k] if k < len(x) else "missing"} but the documented semantics give '
                                  f'{y[k] if k < len(y) else "nothing"}; history: {log[-12:]}', dict(case, log=log))
                    return False
        return True

    def cap(n):
        return LIMITS.get(n.kind, (1, 64) if n.kind == '__fork__' else (4, 2))

    with ctx.guard('edit-raises', case):
        for step in range(case['len']):
            ops = ['add_node'] * 3 + ['add_line_implicit'] * 4 + ['add_line_explicit'] * 2
            if c.lines:
                ops += ['remove_line'] * 2
            if c.nodes:
                ops += ['remove_node', 'io_add']
            if len(c.nodes) > 3:
                ops += ['eliminate', 'substitute', 'copy', 'pickle', 'resolve']
            op = rng.choice(ops)
            if op == 'add_node':
                kind = rng.choice(KINDS)
                name = f'n{counter}'
                counter += 1
                Node(c, name, kind)
                m.add_node(name, kind)
                log.append(('add_node', name, kind))
            elif op in ('add_line_implicit', 'add_line_explicit'):
                if len(c.nodes) < 2:
                    continue
                d = rng.choice(list(c.nodes))
                r = rng.choice(list(c.nodes))
                if d is r:
                    continue
                used_in = sum(1 for x in r.ins if x is not None)
                used_out = sum(1 for x in d.outs if x is not None)
                if r.kind == '__fork__' and used_in >= 1:
                    continue
                if op == 'add_line_implicit':
                    if d.outs.free_index() >= cap(d)[1] or r.ins.free_index() >= cap(r)[0]:
                        continue
                    l = Line(c, d, r)
                    m.add_line(m.nodes[d.index], m.nodes[r.index])
                    log.append(('line', d.name, r.name))
                else:
                    if d.kind == '__fork__':
                        dpin = len(d.outs)
                    else:
                        free = [i for i in range(cap(d)[1]) if i >= len(d.outs) or d.outs[i] is None]
                        if not free:
                            continue
                        dpin = rng.choice(free)
                    if r.kind == '__fork__':
                        rpin = 0
                    else:
                        free = [i for i in range(cap(r)[0]) if i >= len(r.ins) or r.ins[i] is None]
                        if not free:
                            continue
                        rpin = rng.choice(free)
                    Line(c, (d, dpin), (r, rpin))
                    m.add_line(m.nodes[d.index], m.nodes[r.index], dpin, rpin)
                    log.append(('line', d.name, dpin, r.name, rpin))
                if id(d) in moved or id(r) in moved:
                    touched_moved = True
            elif op == 'remove_line':
                l = rng.choice(list(c.lines))
                if id(l) in moved or id(l.driver) in moved or id(l.reader) in moved:
                    touched_moved = True
                if l.index != len(c.lines) - 1:
                    moved.add(id(c.lines[-1]))
                ml = m.lines[l.index]
                log.append(('remove_line', l.index))
                l.remove()
                m.remove_line(ml)
            elif op == 'remove_node':
                ios = {id(n) for n in c.io_nodes}
                cand = [n for n in c.nodes if id(n) not in ios and all(x is None for x in n.ins) and all(x is None for x in n.outs)]
                if not cand:
                    continue
                n = rng.choice(cand)
                if n.index != len(c.nodes) - 1:
                    moved.add(id(c.nodes[-1]))
                mn = m.nodes[n.index]
                log.append(('remove_node', n.name))
                n.remove()
                m.remove_node(mn)
            elif op == 'io_add':
                ios = {id(n) for n in c.io_nodes}
                cand = [n for n in c.nodes if id(n) not in ios and n.kind in ('input', 'output', '__fork__')]
                if not cand:
                    continue
                n = rng.choice(cand)
                c.io_nodes.append(n)
                m.io.append(m.nodes[n.index])
                log.append(('io_add', n.name))
            elif op == 'eliminate':
                ios = {id(n) for n in c.io_nodes}
                exp, ngone = contracted_connections(c)
                if any(d == r for d, _, r, _ in exp):
                    continue        # contracting would turn a loop through a fork into a self-loop line (outside well-formed use)
                nn = len(c.nodes)
                log.append(('eliminate', ngone))
                c.eliminate_1to1_forks()
                ctx.count('op/eliminate')
                if not sync_check('eliminate_1to1_forks'):
                    return
                got = {((l.driver.name, l.driver.kind), l.driver_pin, (l.reader.name, l.reader.kind), l.reader_pin) for l in c.lines}
                if got != exp or len(c.nodes) != nn - ngone:
                    ctx.violation('transformation-connectivity', f'eliminate_1to1_forks: connections {sorted(got ^ exp)[:3]} differ from contracting the {ngone} '
                                  f'single-reader forks; history: {log[-8:]}', dict(case, log=log))
                    return
                m = RC.model_from_real(c)
                moved.clear()
                continue
            elif op == 'substitute':
                ios = {id(n) for n in c.io_nodes}
                cand = [n for n in c.nodes if n.kind != '__fork__' and id(n) not in ios and n.name not in subst_roots and n.kind not in ('input', 'output')]
                if not cand:
                    continue
                n = rng.choice(cand)
                ni = max(len(n.ins), rng.randint(0, 3))
                no = max(len(n.outs), rng.randint(0, 2))
                text = rand_impl(rng, ni, no)
                if text is None:
                    continue
                impl = bench.parse(text)
                if rng.random() < 0.5:
                    impl.eliminate_1to1_forks()
                subst_roots.add(n.name)
                log.append(('substitute', n.name, text))
                c.substitute(n, impl)
                ctx.count('op/substitute')
                if not sync_check(f'substitute({n.name}, "{text}")'):
                    return
                m = RC.model_from_real(c)
                moved.clear()
                continue
            elif op in ('copy', 'pickle'):
                before = name_structure(c)
                log.append((op,))
                c2 = c.copy() if op == 'copy' else pickle.loads(pickle.dumps(c))
                ctx.count('op/' + op)
                if c2 is c:
                    ctx.violation('copy-identity', f'{op} returned the same object', dict(case, log=log))
                    return
                if name_structure(c2) != before or c2.name != c.name:
                    # (indices may be renumbered by a copy - the property only demands that they are consecutive, which sync_check verifies below)
                    ctx.violation('copy-structure', f'{op}: the result differs structurally (names, kinds, connections with pins, port order) from the original; history: {log[-8:]}',
                                  dict(case, log=log))
                    return
                if any(n2 is n1 for n1, n2 in zip(c.nodes, c2.nodes)):
                    ctx.violation('copy-identity', f'{op} shares node objects with the original', dict(case, log=log))
                    return
                c = c2
                if not sync_check(op):
                    return
                m = RC.model_from_real(c)
                moved.clear()
                continue
            elif op == 'resolve':
                roots = [n for n in c.nodes if n.kind in NANGATE.cells]
                if not roots or any(n.name in subst_roots for n in roots):
                    continue
                for n in roots:
                    subst_roots.add(n.name)
                log.append(('resolve', [n.name for n in roots]))
                c.resolve_tlib_cells(NANGATE)
                ctx.count('op/resolve')
                if not sync_check('resolve_tlib_cells'):
                    return
                if any(n.kind in NANGATE.cells for n in c.nodes):
                    ctx.violation('transformation-connectivity', 'resolve_tlib_cells left library cells unresolved', dict(case, log=log))
                    return
                m = RC.model_from_real(c)
                moved.clear()
                continue
            ctx.count('op/' + op)
            ctx.count('steps')
            if not sync_check(str(log[-1])) or not compare(str(log[-1])):
                return
    if touched_moved:
        ctx.count('moved_then_touched')
    ctx.case(case, touched_moved, key=log)
    ctx.sample({'history': [list(x) for x in log[:25]], 'final': repr(c)})


def wide_history(case, ctx):
    """edit history on nodes with a very wide fan-out / fan-in: a fork with 65..300 branches (clock / reset nets look like this), branches removed at
    the front, in the middle, next to the end and at the end, new branches added in between; invariants and the executable model after every step"""
    from kyupy.circuit import Circuit, Node, Line
    rng = random.Random(case['hseed'])
    c = Circuit('w')
    m = RC.Model()
    log = []
    W = case['width']

    def node(name, kind):
        Node(c, name, kind) if kind != '__fork__' else Node(c, name)
        return m.add_node(name, kind)

    def check(what):
        bad = RC.inv_circuit(c)
        ctx.count('invariant_walks')
        if bad:
            ctx.violation('graph-invariant', f'after {what}: {bad[0]} (+{len(bad) - 1} more); fork with {W} branches; history: {log[-8:]}', dict(case, log=log))
            return False
        a, b_ = norm(RC.snapshot_real(c)), norm(m.snapshot())
        if a != b_:
            part = next(p_ for p_, x, y in zip(('nodes', 'lines', 'io'), a, b_) if x != y)
            ctx.violation('model-mismatch', f'after {what}: {part} differ from the documented semantics; fork with {W} branches; history: {log[-8:]}', dict(case, log=log))
            return False
        return True

    with ctx.guard('edit-raises', case):
        node('src', 'input')
        node('stem', '__fork__')
        Line(c, c.nodes[0], c.nodes[1])
        m.add_line(m.nodes[0], m.nodes[1])
        for k in range(W):
            node(f'r{k}', 'BUF1')
            Line(c, c.nodes[1], c.nodes[-1])
            m.add_line(m.nodes[1], m.nodes[-1])
        if not check('construction'):
            return
        nxt = W
        for step in range(case['len']):
            fork = c.nodes[1]
            n_out = len(fork.outs)
            r = rng.random()
            if r < 0.7 and n_out > 2:
                pin = rng.choice([0, 1, n_out // 2, n_out - 3, n_out - 2, n_out - 2, n_out - 1, rng.randrange(n_out)])
                pin = max(0, min(n_out - 1, pin))
                l = fork.outs[pin]
                log.append(('remove_branch', pin, n_out))
                ml = m.lines[l.index]
                l.remove()
                m.remove_line(ml)
            else:
                node(f'r{nxt}', 'BUF1')
                nxt += 1
                log.append(('add_branch', n_out))
                Line(c, c.nodes[1], c.nodes[-1])
                m.add_line(m.nodes[1], m.nodes[-1])
            ctx.count('wide_fork_steps')
            if not check(str(log[-1])):
                return
    ctx.case(case, True, key=[W, case['hseed']])


def corpus(ctx, spec):
    """inv_circuit while the real parsers build the shipped netlists (post-hooks on the mutators, sampled)"""
    import os
    from .. import REPO
    import kyupy.circuit as KC
    from kyupy import bench, verilog
    from kyupy.techlib import SAED32, SAED90
    tests = os.path.join(REPO, 'tests')
    state = {'n': 0, 'circ': None, 'bad': None, 'parsing': False}
    orig_line_init = KC.Line.__init__

    def line_init(self, circuit, driver, reader):
        orig_line_init(self, circuit, driver, reader)
        state['n'] += 1
        state['circ'] = circuit
        # only while a parser builds the circuit: inside substitute()/copy() the graph is legitimately inconsistent mid-update
        if state['parsing'] and state['n'] % spec.get('every', 64) == 0 and state['bad'] is None and len(circuit.lines) < 4000:
            bad = RC.inv_circuit(circuit, transient=True)
            ctx.count('invariant_walks')
            if bad:
                state['bad'] = bad
    KC.Line.__init__ = line_init
    try:
        items = [('b01.bench', lambda: bench.load(os.path.join(tests, 'b01.bench')), None),
                 ('b01.v', lambda: verilog.load(os.path.join(tests, 'b01.v'), tlib=SAED90), SAED90),
                 ('gates.v', lambda: verilog.load(os.path.join(tests, 'gates.v'), tlib=SAED90, branchforks=True), SAED90),
                 ('rng_haltonBase2.synth_yosys.v', lambda: verilog.load(os.path.join(tests, 'rng_haltonBase2.synth_yosys.v'), tlib=SAED90), SAED90)]
        if spec.get('big'):
            items.append(('b15_4ig.v.gz', lambda: verilog.load(os.path.join(tests, 'b15_4ig.v.gz'), tlib=SAED32), SAED32))
        for name, loader, tlib in items:
            case = {'corpus': name}
            with ctx.guard('corpus-load', case):
                state['parsing'] = True
                try:
                    c = loader()
                finally:
                    state['parsing'] = False
                for stage in ('parse', 'resolve', 'eliminate', 'copy', 'pickle'):
                    if stage == 'resolve':
                        if tlib is None:
                            continue
                        c.resolve_tlib_cells(tlib)
                    elif stage == 'eliminate':
                        c.eliminate_1to1_forks()
                    elif stage == 'copy':
                        c = c.copy()
                    elif stage == 'pickle':
                        c = pickle.loads(pickle.dumps(c))
                    bad = state['bad'] or RC.inv_circuit(c)
                    ctx.count('invariant_walks')
                    if bad:
                        ctx.violation('graph-invariant', f'{name} after {stage}: {bad[0]}', case)
                        break
                ctx.count('corpus_circuits')
                ctx.case(case, True, key=case)
    finally:
        KC.Line.__init__ = orig_line_init


def run(spec, ctx):
    if spec.get('corpus'):
        corpus(ctx, spec)
        return
    for i in range(spec['n']):
        rng = random.Random(f'C09/{spec["seed"]}/{spec["shard"]}/{i}')
        run_history({'hseed': rng.randrange(1 << 40), 'len': rng.choice([5, 12, 25, 40, 80])}, ctx)
    for i in range(spec.get('wide', 0)):
        rng = random.Random(f'C09w/{spec["seed"]}/{spec["shard"]}/{i}')
        wide_history({'wide': True, 'hseed': rng.randrange(1 << 40), 'len': rng.choice([6, 20, 60]), 'width': rng.choice([65, 66, 100, 129, 257, 300])}, ctx)


def replay(case, ctx):
    if case.get('corpus'):
        corpus(ctx, {'big': case['corpus'].startswith('b15')})
    elif case.get('wide'):
        wide_history({'wide': True, 'hseed': case['hseed'], 'len': case['len'], 'width': case['width']}, ctx)
    else:
        run_history({'hseed': case['hseed'], 'len': case['len']}, ctx)
