"""C20 - DEF data is extracted as written, with wildcards and via arrays expanded."""
import collections
import random

from ..simutil import KRandom, parse_via

ID = 'C20'
TECHNIQUE = 'runtime monitoring: seeded DEF texts (own renderer within the supported grammar) are parsed by the real parser and every attribute of the resulting DefFile, including the per-net wire and via listings computed by the real DefNet/DefWire code, is compared with the generator\'s record'
LEVEL_TEXT = ('Random DEF files with all sections (header statements, units, die area, rows, tracks, via definitions, non-default rules, components, pins, pin properties, '
              'special nets, nets), 0-40 entries per section, routing with 1-4 segments of 2-8 points, wildcards in x or y, vias with and without orientation or DO-BY-STEP '
              'arrays, optional third point value. The real parse result is compared attribute by attribute; via positions (where the code resolves wildcards and expands '
              'arrays) exactly as multisets, wire points leniently at positions written as *. Held on what was generated.')
LEVEL_NOTE = 'trusted: the record + renderer in this module'
DESIGN_REF = 'DESIGN.md section 3 C20'
LEVEL = 'exploration'
RULE = ('Cases: one DEF text each. Non-trivial iff some net has >= 2 wire segments, a wildcard coordinate and a via array. Distinct = digest of the text.'
        ' Coordinates up to 10 digits, via arrays up to 40 x 11, occasional files with 260-400 components / 130-300 pins; texts reach the parser through parse() or the load() variants, with and without a final newline / surrounding blank lines; 8 % of the later wire points are ( * * ).')
ASSUMPTIONS = ['unsigned coordinates; rows have one of the two counts equal to 1 with step 0 (so "number of sites / step" has one reading); every checked net is ROUTED',
               'wire point lists: a None reported at a position written * is accepted as "as written"; via positions are strict',
               'via lists are compared as multisets (the property fixes positions, not their order)']
REACH = {'def.net_wire': ('def_file.py', 14, 60), 'def.transformer': ('def_file.py', 90, 195)}

ORIENT = ['N', 'S', 'E', 'W', 'FN', 'FS', 'FE', 'FW']
LAYERS = ['M1', 'M2', 'M3', 'metal4', 'M5']


def plan(tier, seed):
    q = tier == 'quick'
    return [{'n': 120 if q else 3000} for _ in range(16)]


def conclude(agg):
    c = agg['counters']
    return [f'monitor counter {k} is zero' for k in ('files', 'attributes_compared', 'regular_nets', 'special_nets', 'wildcards', 'via_arrays', 'via_positions',
                                                     'oriented_vias', 'multi_segment_nets', 'three_value_points', 'empty_sections', 'wire_point_lists', 'negative_array_steps', 'double_wildcards', 'rejected_files_before_parse')
            if c.get(k, 0) == 0]


def coord(rng):
    """routing coordinate; the boundary value 0 is over-represented (a written 0 is a value, not a wildcard)"""
    r = rng.random()
    if r < 0.12:
        return 0
    if r < 0.2:
        return rng.randrange(100000, 2000000000, 5)      # die sizes in database units: 6-10 digits (the grammar of the supported subset has no negative coordinates)
    return rng.randrange(0, 5000, 5)


def gen_route(rng, special, vianames, stats):
    """-> (text, [(layer, width, points as written, resolved points)], {via: [(x, y, orient)]})"""
    segs_txt = []
    segs = []
    vias = collections.defaultdict(list)
    nseg = rng.randint(1, 4)
    if nseg > 1:
        stats['multi_segment_nets'] += 1
    for s in range(nseg):
        layer = rng.choice(LAYERS)
        width = rng.randrange(10, 400, 10) if special else None
        toks = [layer]
        if special:
            toks.append(str(width))
            if rng.random() < 0.4:
                toks += ['+', 'SHAPE', rng.choice(['STRIPE', 'FOLLOWPIN', 'RING'])]
        else:
            r = rng.random()
            if r < 0.1:
                toks.append('TAPER')
            elif r < 0.2:
                toks += ['TAPERRULE', 'rule1']
        x, y = coord(rng), coord(rng)
        toks += ['(', str(x), str(y), ')']
        written = [(x, y)]
        resolved = [(x, y)]
        npts = rng.randint(1, 7)
        k = 0
        while k < npts:
            r = rng.random()
            if r < 0.3 and vianames:
                v = rng.choice(vianames)
                if special and rng.random() < 0.5:
                    nx, ny, sx, sy = rng.choice([1, 2, 3, 4, 12, 40]), rng.choice([1, 2, 3, 11]), rng.randrange(5, 100, 5) * rng.choice([1, 1, -1]), rng.randrange(5, 100, 5) * rng.choice([1, 1, -1])
                    if sx < 0 or sy < 0:
                        stats['negative_array_steps'] += 1
                    toks += [v, 'DO', str(nx), 'BY', str(ny), 'STEP', str(sx), str(sy)]
                    stats['via_arrays'] += 1
                    for i in range(nx):
                        for j in range(ny):
                            vias[v].append((x + i * sx, y + j * sy, 'N'))
                elif not special and rng.random() < 0.5:
                    o = rng.choice(ORIENT)
                    toks += [v, o]
                    stats['oriented_vias'] += 1
                    vias[v].append((x, y, o))
                else:
                    toks += [v]
                    vias[v].append((x, y, 'N'))
                k += 1
                continue
            mode = rng.choice(['xy', 'x*', '*y', 'xy'])
            if rng.random() < 0.08:
                mode = '**'         # both coordinates kept: legal, and a via written after it sits at the previous position
            if mode == '**':
                wr = (None, None)
                stats['wildcards'] += 1
                stats['double_wildcards'] += 1
            elif mode == 'x*':
                nx_ = coord(rng)
                wr = (nx_, None)
                x = nx_
                stats['wildcards'] += 1
            elif mode == '*y':
                ny_ = coord(rng)
                wr = (None, ny_)
                y = ny_
                stats['wildcards'] += 1
            else:
                x, y = coord(rng), coord(rng)
                wr = (x, y)
            ext = None
            if not special and rng.random() < 0.15:
                ext = rng.randrange(0, 50, 5)
                stats['three_value_points'] += 1
            toks += ['(', '*' if wr[0] is None else str(wr[0]), '*' if wr[1] is None else str(wr[1])] + ([str(ext)] if ext is not None else []) + [')']
            written.append(wr + ((ext,) if ext is not None else ()))
            resolved.append((x, y) + ((ext,) if ext is not None else ()))
            k += 1
        if len(written) == 1 and toks[-1] == ')':
            # a wire needs something after its first point
            x2 = coord(rng)
            toks += ['(', str(x2), '*', ')']
            written.append((x2, None))
            resolved.append((x2, y))
            stats['wildcards'] += 1
        segs_txt.append(' '.join(toks))
        segs.append((layer, width, written, resolved))
    kw = rng.choice(['ROUTED', 'ROUTED', 'ROUTED'])
    return f'+ {kw} ' + ' NEW '.join(segs_txt), segs, vias


def gen_def(rng):
    stats = collections.Counter()
    rec = {}
    L = []
    if rng.random() < 0.5:
        L.append('# generated DEF')
    rec['version'] = rng.choice(['5.7', '5.8'])
    rec['dividerchar'] = '/'
    rec['busbitchars'] = '[]'
    L.append(f'VERSION {rec["version"]} ;')
    L.append('DIVIDERCHAR "/" ;')
    L.append('BUSBITCHARS "[]" ;')
    rec['design'] = 'top_' + str(rng.randrange(100))
    L.append(f'DESIGN {rec["design"]} ;')
    dbu = rng.choice([1000, 2000])
    rec['units'] = [('DISTANCE', 'MICRONS', dbu)]
    L.append(f'UNITS DISTANCE MICRONS {dbu} ;')
    if rng.random() < 0.5:
        L.append('PROPERTYDEFINITIONS\n  COMPONENTPIN text STRING ;\nEND PROPERTYDEFINITIONS')
    W, Hh = rng.randrange(1000, 100000, 10), rng.randrange(1000, 100000, 10)
    rec['diearea'] = [(0, 0), (W, Hh)] if rng.random() < 0.7 else [(0, 0), (0, Hh), (W, Hh), (W, 0)]
    L.append('DIEAREA ' + ' '.join(f'( {x} {y} )' for x, y in rec['diearea']) + ' ;')
    rec['rows'] = []
    for i in range(rng.randint(0, 6)):
        n, st = rng.randint(2, 500), rng.randrange(10, 500, 10)
        x, y, o = rng.randrange(0, 1000, 10), i * 280, rng.choice(['N', 'FS'])
        horiz = rng.random() < 0.8
        do = (n, 1, st, 0) if horiz else (1, n, 0, st)
        rec['rows'].append((f'row_{i}', 'core', (x, y), o, n, st))
        L.append(f'ROW row_{i} core {x} {y} {o} DO {do[0]} BY {do[1]} STEP {do[2]} {do[3]} ;')
    rec['tracks'] = []
    for i in range(rng.randint(0, 5)):
        t = (rng.choice('XY'), rng.randrange(0, 500, 10), rng.randint(1, 900), rng.randrange(10, 600, 10), rng.choice(LAYERS))
        rec['tracks'].append(t)
        L.append(f'TRACKS {t[0]} {t[1]} DO {t[2]} STEP {t[3]} LAYER {t[4]} ;')
    # via definitions
    rec['vias'] = {}
    nv = rng.randint(0, 5)
    VL = [f'VIAS {nv} ;']
    for i in range(nv):
        name = f'via{i}_{rng.randrange(10)}'
        v = {}
        opts = []
        if rng.random() < 0.8:
            v['viarule'] = f'VIAGEN{i}'
            opts.append(f'+ VIARULE {v["viarule"]}')
        if rng.random() < 0.8:
            v['cutsize'] = [rng.randrange(10, 100, 10), rng.randrange(10, 100, 10)]
            opts.append(f'+ CUTSIZE {v["cutsize"][0]} {v["cutsize"][1]}')
        if rng.random() < 0.8:
            v['layers'] = [rng.choice(LAYERS), 'V12', rng.choice(LAYERS)]
            opts.append('+ LAYERS ' + ' '.join(v['layers']))
        if rng.random() < 0.6:
            v['cutspacing'] = [rng.randrange(10, 100, 10), rng.randrange(10, 100, 10)]
            opts.append(f'+ CUTSPACING {v["cutspacing"][0]} {v["cutspacing"][1]}')
        else:
            v['cutspacing'] = [0, 0]
        if rng.random() < 0.6:
            v['enclosure'] = [rng.randrange(0, 50, 5) for _ in range(4)]
            opts.append('+ ENCLOSURE ' + ' '.join(map(str, v['enclosure'])))
        if rng.random() < 0.5:
            v['rowcol'] = [rng.randint(1, 4), rng.randint(1, 4)]
            opts.append(f'+ ROWCOL {v["rowcol"][0]} {v["rowcol"][1]}')
        else:
            v['rowcol'] = [1, 1]
        if rng.random() < 0.2:
            v['pattern'] = '2_F0F0'
            opts.append('+ PATTERN 2_F0F0')
        rec['vias'][name] = v
        VL.append(f' - {name} ' + '\n   '.join(opts) + ' ;')
    VL.append('END VIAS')
    L.append('\n'.join(VL))
    if nv == 0:
        stats['empty_sections'] += 1
    vianames = list(rec['vias']) + ['via12_fixed']
    if rng.random() < 0.4:
        L.append('NONDEFAULTRULES 1 ;\n - rule1 + HARDSPACING + LAYER M1 WIDTH 200 SPACING 100 + VIA via12_fixed ;\nEND NONDEFAULTRULES')
    # components
    rec['components'] = {}
    nc = rng.randint(0, 40) if rng.random() < 0.95 else rng.choice([260, 400])
    CL = [f'COMPONENTS {nc} ;']
    for i in range(nc):
        name = rng.choice([f'U{i}', f'core/u{i}', f'reg_{i}_'])
        kind = rng.choice(['NAND2_X1', 'INV_X2', 'DFF_X1', 'FILLCELL_X4'])
        pt = (rng.randrange(0, W, 10), rng.randrange(0, Hh, 10))
        o = rng.choice(ORIENT)
        rec['components'][name] = (kind, pt, o)
        CL.append(f' - {name} {kind} + PLACED ( {pt[0]} {pt[1]} ) {o} ;')
    CL.append('END COMPONENTS')
    L.append('\n'.join(CL))
    # pins
    rec['pins'] = {}
    npn = rng.randint(0, 20) if rng.random() < 0.95 else rng.choice([130, 300])
    PL = [f'PINS {npn} ;']
    for i in range(npn):
        name = rng.choice([f'p{i}', f'bus[{i}]'])
        p = {'net': name, 'direction': rng.choice(['INPUT', 'OUTPUT', 'INOUT']), 'use': rng.choice(['SIGNAL', 'CLOCK', 'POWER']), 'points': []}
        opts = [f'+ NET {p["net"]}']
        if rng.random() < 0.2:
            opts.append('+ SPECIAL')
        opts += [f'+ DIRECTION {p["direction"]}', f'+ USE {p["use"]}']
        if rng.random() < 0.8:
            if rng.random() < 0.3:
                opts.append('+ PORT')
            lay = rng.choice(LAYERS)
            p1, p2 = (0, 0), (rng.randrange(10, 200, 10), rng.randrange(10, 200, 10))
            p['layer'] = [lay, p1, p2]
            opts.append(f'+ LAYER {lay} ( {p1[0]} {p1[1]} ) ( {p2[0]} {p2[1]} )')
            pl = (rng.randrange(0, W, 10), rng.randrange(0, Hh, 10), rng.choice(ORIENT))
            p['points'].append(pl)
            opts.append(f'+ PLACED ( {pl[0]} {pl[1]} ) {pl[2]}')
        rec['pins'][name] = p
        PL.append(f' - {name} ' + ' '.join(opts) + ' ;')
    PL.append('END PINS')
    L.append('\n'.join(PL))
    if npn and rng.random() < 0.3:
        L.append(f'PINPROPERTIES 1 ;\n - PIN {list(rec["pins"])[0]} + PROPERTY text "a string" ;\nEND PINPROPERTIES')
    comps = list(rec['components']) or ['PIN']
    for sect, special in (('SPECIALNETS', True), ('NETS', False)):
        nn = rng.randint(0, 12 if special else 40)
        recn = {}
        NL = [f'{sect} {nn} ;']
        for i in range(nn):
            name = (rng.choice(['VDD', 'VSS', 'vpwr']) + str(i)) if special else rng.choice([f'n{i}', f'net/{i}', f'd[{i}]'])
            pins = []
            for _ in range(rng.randint(0, 4)):
                pins.append((rng.choice(comps), rng.choice(['A1', 'ZN', 'D', 'Q', 'VDD'])) if not (special and rng.random() < 0.5) else ('*', 'VDD'))
            use = rng.choice([None, 'SIGNAL', 'POWER', 'CLOCK', 'GROUND'])
            routed = rng.random() < 0.85
            parts = [f' - {name}'] + [f'( {a} {b} )' for a, b in pins]
            if use:
                parts.append(f'+ USE {use}')
            n = {'pins': pins, 'use': use, 'segs': None, 'vias': None}
            if not special and rng.random() < 0.1:
                parts.append('+ NONDEFAULTRULE rule1')
                n['nondefaultrule'] = 'rule1'
            if routed:
                txt, segs, vias = gen_route(rng, special, vianames, stats)
                parts.append('\n   ' + txt)
                n['segs'], n['vias'] = segs, vias
            recn[name] = n
            NL.append(' '.join(parts) + ' ;')
            stats['special_nets' if special else 'regular_nets'] += 1
        NL.append(f'END {sect}')
        L.append('\n'.join(NL))
        rec['specialnets' if special else 'nets'] = recn
        if nn == 0:
            stats['empty_sections'] += 1
    L.append('END DESIGN')
    return '\n'.join(L) + '\n', rec, stats


def check_case(ctx, rng, idx):
    from kyupy import def_file
    text, rec, stats = gen_def(rng)
    case = {'def': text, 'rngkey': getattr(rng, 'key', None)}
    nontrivial = False
    if rng.random() < 0.25:
        # a file the parser must reject, immediately before the real one: nothing of it may leak into the next result
        bad = text[:max(40, text.find('COMPONENTS') + rng.randrange(5, 60))] if rng.random() < 0.5 else text.replace('END DESIGN', 'END')
        try:
            def_file.parse(bad)
            ctx.count('rejected_file_accepted')
        except Exception:
            ctx.count('rejected_files_before_parse')
    with ctx.guard('def-raises', case):
        d = parse_via(def_file, text, rng, ctx)
        ctx.count('files')
        for k, v in stats.items():
            ctx.count(k, v)

        def same(got, exp):
            # records are compared by their documented leading fields: a record type may carry additional trailing fields
            if isinstance(exp, tuple):
                return isinstance(got, (tuple, list)) and len(got) >= len(exp) and all(same(g_, e_) for g_, e_ in zip(got, exp))
            if isinstance(exp, list):
                return isinstance(got, (tuple, list)) and len(got) == len(exp) and all(same(g_, e_) for g_, e_ in zip(got, exp))
            if isinstance(exp, dict):
                try:
                    return set(got.keys()) == set(exp.keys()) and all(same(got[k_], exp[k_]) for k_ in exp)
                except AttributeError:
                    return False
            return got == exp

        def eq(what, got, exp):
            ctx.count('attributes_compared')
            if not same(got, exp):
                ctx.violation('def-attribute', f'{what}: parsed {got!r}, the file states {exp!r}', case)
                return False
            return True
        ok = True
        for a in ('version', 'dividerchar', 'busbitchars', 'design'):
            ok = ok and eq(a, getattr(d, a, None), rec[a])
        ok = ok and eq('units', list(d.units), rec['units'])
        ok = ok and eq('diearea', list(getattr(d, 'diearea', [])), rec['diearea'])
        ok = ok and eq('rows', list(d.rows), rec['rows'])
        ok = ok and eq('tracks', list(d.tracks), rec['tracks'])
        ok = ok and eq('via names', sorted(d.vias, key=str), sorted(rec['vias'], key=str))
        for name, v in rec['vias'].items():
            for a, e in v.items():
                ok = ok and eq(f'via {name}.{a}', getattr(d.vias[name], a, None), e)
        ok = ok and eq('components', dict(d.components), rec['components'])
        ok = ok and eq('pin names', sorted(d.pins, key=str), sorted(rec['pins'], key=str))
        for name, p in rec['pins'].items():
            for a, e in p.items():
                ok = ok and eq(f'pin {name}.{a}', getattr(d.pins[name], a, None), e)
        for sect in ('specialnets', 'nets'):
            got_nets = getattr(d, sect)
            ok = ok and eq(f'{sect} names', sorted(got_nets, key=str), sorted(rec[sect], key=str))
            if not ok:
                break
            for name, n in rec[sect].items():
                g = got_nets[name]
                ok = ok and eq(f'{sect} {name}.pins', list(g.pins), n['pins'])
                ok = ok and eq(f'{sect} {name}.use', getattr(g, 'use', None), n['use'])
                if 'nondefaultrule' in n:
                    ok = ok and eq(f'{sect} {name}.nondefaultrule', getattr(g, 'nondefaultrule', None), 'rule1')
                if n['segs'] is None or not ok:
                    continue
                # via listing: strict, as multisets per via type
                gv = {k: sorted(v, key=repr) for k, v in g.vias.items() if len(v) > 0}      # (key=repr: a wrong result may contain None, it must not crash the comparison)
                ev = {k: sorted(v, key=repr) for k, v in n['vias'].items() if len(v) > 0}
                ctx.count('via_positions', sum(len(v) for v in ev.values()))
                ok = ok and eq(f'{sect} {name}.vias', gv, ev)
                # wire listing per layer: (width, points) in file order; a None at a written * is accepted
                gw = g.wires
                ew = collections.defaultdict(list)
                for layer, width, written, resolved in n['segs']:
                    if len(written) >= 2:
                        ew[layer].append((width, written, resolved))
                ctx.count('wire_point_lists', sum(len(v) for v in ew.values()))
                if sorted((k for k, v in gw.items() if v), key=str) != sorted(ew, key=str):
                    ok = eq(f'{sect} {name}.wires layers', sorted((k for k, v in gw.items() if v), key=str), sorted(ew, key=str))
                    continue
                for layer, lst in ew.items():
                    if len(gw[layer]) != len(lst):
                        ok = eq(f'{sect} {name}.wires[{layer}] count', len(gw[layer]), len(lst))
                        break
                    for (gwid, gpts), (width, written, resolved) in zip(gw[layer], lst):
                        ok = ok and eq(f'{sect} {name}.wires[{layer}] width', gwid, width)
                        good = len(gpts) == len(written) and all(
                            len(gp) == len(wp) and all((a == r_) or (a is None and w_ is None) for a, w_, r_ in zip(gp, wp, rp))
                            for gp, wp, rp in zip(gpts, written, resolved))
                        ctx.count('attributes_compared')
                        if not good:
                            ctx.violation('def-attribute', f'{sect} {name}.wires[{layer}] points {list(gpts)!r}, the file states {written!r} (resolved {resolved!r})', case)
                            ok = False
                        if not ok:
                            break
                    if not ok:
                        break
                if len(n['segs']) >= 2 and any(None in w for _, _, wr, _ in n['segs'] for w in wr) and any(len(v) > 1 for v in n['vias'].values()):
                    nontrivial = True
    ctx.case(None, nontrivial, key=text)
    if idx < 1:
        ctx.sample({'def_excerpt': text[:1500]})


def run(spec, ctx):
    for i in range(spec['n']):
        check_case(ctx, KRandom(f'C20/{spec["seed"]}/{spec["shard"]}/{i}'), i)


def replay(case, ctx):
    check_case(ctx, KRandom(case['rngkey']), 9)
