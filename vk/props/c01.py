"""C01 - 2-valued logic simulation computes the netlist's Boolean function."""
import random

import numpy as np

from .. import gen_circuit as G
from ..simutil import int_to_row, row_to_int, lanes_mask, diff_lanes

ID = 'C01'
TECHNIQUE = 'runtime monitoring: real LogicSim(m=2) runs on seeded hostile circuits checked lane by lane against an independent gate-by-gate evaluator (ports, state inputs, every internal line, k-cycle next-state iteration)'
LEVEL_TEXT = ('Thousands of seeded circuits (both construction styles, all 33 primitives under their kind aliases, fan-out, reconvergence, '
              'flip-flops with Q/QN, latches, unconnected pins/outputs) are simulated by the real LogicSim with exhaustive or random 0/1 stimuli, '
              'odd batch sizes and all option settings; every captured port/state value and (memory reuse off) every internal line is compared '
              'with an independent evaluator; cycle(k) is compared with the k-fold next-state function. Held on what was generated.')
LEVEL_NOTE = 'trusted: vk/gen_circuit.py (hand-written primitive functions and net evaluator), numpy; the all-primitives circuit must hit every primitive x input combination or the run is inconclusive'
DESIGN_REF = 'DESIGN.md section 3 C01'
LEVEL = 'exploration'
RULE = ('Cases: (circuit, options c_reuse/strip_forks, batch size, stimulus, cycle count) from a seeded generator (1-8 inputs, 1-60 gates (thorough: to 300), '
        '0-6 state elements, verilog-style and bench-style construction, optional hostile features) plus the fixed all-primitives circuit with all 16 '
        'input combinations. Non-trivial iff the circuit has >= 2 logic levels and >= 1 fan-out stem. Distinct = digest of (netlist text, options, batch size, stimulus seed).'
        ' Two large cases per shard: 300-700 gates, up to 40 inputs / state elements, 129-1030 patterns.')
ASSUMPTIONS = ['unconnected input pin reads constant 0; for AND/OR/XOR families the arity is given by the highest connected pin (no trailing gaps are generated)',
               'row order of ports/state elements follows the documented convention: ports in io order, then flip-flops, then latches, each in creation order',
               'only lanes < batch size are compared; padding lanes carry random garbage on input']
REACH = {'sim.SimOps': ('sim.py', 159, 334), 'logic_sim.prop2': ('logic_sim.py', 298, 336), 'logic_sim.api': ('logic_sim.py', 49, 53)}

N_COMBOS = sum(2 ** ar for ar, _ in G.FUNCS.values())
FEATS = ['unconn_in', 'unconn_out', 'ff_no_d', 'out_read', 'wiring', 'consts', 'floating', 'ff_unread']


def plan(tier, seed):
    if tier == 'quick':
        return [{'n': 600, 'max_gates': 60} for _ in range(14)] + [{'n': 30, 'max_gates': 300}, {'corpus': True}]
    return [{'n': 12000, 'max_gates': 60} for _ in range(12)] + [{'n': 700, 'max_gates': 300} for _ in range(3)] + [{'corpus': True, 'big': True}]


def conclude(agg):
    c = agg['counters']
    r = []
    if c.get('allprims_combos', 0) < N_COMBOS:
        r.append(f'primitive x input-combination hit matrix incomplete: {c.get("allprims_combos", 0)} of {N_COMBOS}')
    if len(agg['sets'].get('prims', ())) < 33:
        r.append(f'only {len(agg["sets"].get("prims", ()))} of 33 primitives occurred in random circuits')
    for k in ('lane_checks', 'internal_line_checks', 'cycle_checks', 'padding_cases', 'cases/c_reuse', 'cases/strip_forks', 'cases/style_b', 'corpus_circuits', 'callback_path_cases'):
        if c.get(k, 0) == 0:
            r.append(f'monitor counter {k} is zero')
    return r


def gen_case(rng, spec, idx):
    if idx == 0:
        net = G.all_prims_net(rng.choice(['v', 'b']))
        return {'net': net, 'c_reuse': False, 'strip_forks': False, 'sims': 16, 'stim': 'exh', 'stim_seed': 0, 'cycles': 0, 'allprims': True, 'cbpath': True}
    feats = [f for f in FEATS if rng.random() < 0.3]
    big = spec.get('max_gates', 60)
    if idx in (1, 2):
        # beyond the usual sizes: hundreds of gates (more than 255 / 1024 lines), deep (few inputs) or wide, dozens of state elements, > 256 patterns
        net = G.gen_net(rng, feats=feats, n_gates=rng.choice([300, 700]), n_in=rng.choice([2, 3, 12, 40]), n_ff=rng.choice([0, 9, 40]), n_out=rng.choice([3, 20]))
        return {'net': net, 'c_reuse': rng.random() < 0.5, 'strip_forks': rng.random() < 0.5, 'sims': rng.choice([129, 256, 257, 520, 1030]),
                'stim': 'rand', 'stim_seed': rng.randrange(1 << 30), 'cycles': rng.choice([0, 2]) if net['ffs'] else 0, 'feats': feats, 'cbpath': rng.random() < 0.3, 'large': True}
    net = G.gen_net(rng, feats=feats, max_gates=big)
    nsrc = len(net['inputs']) + len(net['ffs'])
    exh = nsrc <= 10 and rng.random() < 0.4
    sims = (1 << nsrc) if exh else rng.choice([1, 2, 3, 7, 8, 9, 15, 16, 17, 31, 33, 64, 65, 67, rng.randint(1, 67)])
    return {'net': net, 'c_reuse': rng.random() < 0.4, 'strip_forks': rng.random() < 0.4, 'sims': sims,
            'stim': 'exh' if exh else 'rand', 'stim_seed': rng.randrange(1 << 30),
            'cycles': rng.choice([0, 0, 1, 2, 3, 5]) if net['ffs'] else 0, 'feats': feats, 'cbpath': rng.random() < 0.3}


def stimulus(case):
    net = case['net']
    srcs = net['inputs'] + [ff['name'] for ff in net['ffs']]
    n = case['sims']
    if case['stim'] == 'exh':
        assign = {}
        for k, s in enumerate(srcs):
            v = 0
            for lane in range(n):
                if (lane >> k) & 1:
                    v |= 1 << lane
            assign[s] = v
        return assign
    r = random.Random(case['stim_seed'])
    return {s: r.getrandbits(n) for s in srcs}


def load(sim, b, assign, n, garbage_rng):
    nbytes = sim.s.shape[-1]
    pad = (nbytes * 8) - n
    for row, (kind, name) in enumerate(b.s_order):
        if kind == 'out':
            continue
        v = assign[name]
        if pad:
            v |= garbage_rng.getrandbits(pad) << n
        r = int_to_row(v, nbytes)
        sim.s[0, row, 0] = r
        sim.s[0, row, 1] = r
        sim.s[0, row, 2] = 0


def check_case(case, ctx):
    from kyupy.logic_sim import LogicSim
    net = case['net']
    n = case['sims']
    mask = lanes_mask(n)
    depth, stems = G.structure_stats(net)
    key = [G.net_text(net), case['c_reuse'], case['strip_forks'], n, case['stim'], case['stim_seed'], case['cycles']]
    ctx.case(case, depth >= 2 and stems >= 1, key=key)
    if case.get('large'):
        ctx.count('large_cases')
        ctx.count('large_case_gates', len(net['gates']))
        ctx.hit('large_pattern_counts', str(n))
    for g in net['gates']:
        ctx.hit('prims', G.canonical(g['fam'], g['ins'])[0])
    ctx.count('cases/c_reuse', case['c_reuse'])
    ctx.count('cases/strip_forks', case['strip_forks'])
    ctx.count('cases/style_b', net['style'] == 'b')
    for f in case.get('feats', ()):
        ctx.count('feat/' + f)
    assign = stimulus(case)
    val = G.eval_net(net, assign, mask)
    exp = G.observed(net, val)
    garbage = random.Random(case['stim_seed'] ^ 0x5a5a)
    with ctx.guard('simulation-raises', case):
        b = G.build(net)
        from ..ref_circuit import snapshot_real
        snap = snapshot_real(b.c)
        sim = LogicSim(b.c, sims=n, m=2, c_reuse=case['c_reuse'], strip_forks=case['strip_forks'])
        if sim.s_len != len(b.s_order):
            ctx.violation('state-order', f's_len {sim.s_len} != {len(b.s_order)} ports+state elements', case)
            return
        load(sim, b, assign, n, garbage)
        if n % 8:
            ctx.count('padding_cases')
        sim.s_to_c()
        sim.c_prop()
        sim.c_to_s()
        for row, (kind, name) in enumerate(b.s_order):
            if kind == 'in':
                continue
            got = row_to_int(sim.s[1, row, 0])
            e = exp[(kind, name)]
            ctx.count('lane_checks', n)
            if (got ^ e) & mask:
                lanes = diff_lanes(got, e, n)
                ctx.violation('captured-value', f'{kind} {name}: lanes {lanes} differ from gate-by-gate evaluation (got {got & mask:#x}, expected {e:#x}); '
                              f'reuse={case["c_reuse"]} strip={case["strip_forks"]}; {G.net_text(net)[:600]}', case)
                break
        if not case['c_reuse']:
            for li, sig in b.line_sig.items():
                loc = int(sim.c_locs[li])
                got = row_to_int(sim.c[loc, 0])
                ctx.count('internal_line_checks', n)
                if (got ^ val[sig]) & mask:
                    ctx.violation('internal-line', f'line {li} carrying {sig}: lanes {diff_lanes(got, val[sig], n)} differ (got {got & mask:#x}, expected {val[sig]:#x}); '
                                  f'strip={case["strip_forks"]}; {G.net_text(net)[:600]}', case)
                    break
        if snapshot_real(b.c) != snap:
            ctx.violation('circuit-mutated', f'constructing/running the simulator changed the circuit graph; {G.net_text(net)[:400]}', case)
        if case.get('cbpath'):
            # the second copy of the 2-valued evaluation loop (used when a callback is passed) must compute the same function
            simc = LogicSim(b.c, sims=n, m=2, c_reuse=case['c_reuse'], strip_forks=case['strip_forks'])
            load(simc, b, assign, n, garbage)
            simc.s_to_c()
            simc.c_prop(inject_cb=lambda line, values: None)
            simc.c_to_s()
            ctx.count('callback_path_cases')
            for row, (kind, name) in enumerate(b.s_order):
                if kind == 'in':
                    continue
                got = row_to_int(simc.s[1, row, 0])
                if (got ^ exp[(kind, name)]) & mask:
                    ctx.violation('captured-value', f'{kind} {name} (propagation with a no-op inject_cb): lanes {diff_lanes(got, exp[(kind, name)], n)} differ from '
                                  f'gate-by-gate evaluation; {G.net_text(net)[:600]}', case)
                    break
        if case.get('allprims'):
            # 16 lanes = all combinations of the 4 shared inputs: every primitive saw every input combination
            ctx.count('allprims_combos', N_COMBOS)
        k = case['cycles']
        if k:
            sim2 = LogicSim(b.c, sims=n, m=2, c_reuse=case['c_reuse'], strip_forks=case['strip_forks'])
            load(sim2, b, assign, n, garbage)
            sim2.cycle(k)
            st = dict(assign)
            v2 = None
            for _ in range(k):
                v2 = G.eval_net(net, st, mask)
                st.update(G.next_state(net, v2))
            for row, (kind, name) in enumerate(b.s_order):
                ctx.count('cycle_checks', n)
                got = row_to_int(sim2.s[0, row, 0])
                if kind == 'ff' and (got ^ st[name]) & mask:
                    ctx.violation('cycle-next-state', f'after cycle({k}) state of {name}: lanes {diff_lanes(got, st[name], n)} differ from the {k}-fold next-state function; {G.net_text(net)[:600]}', case)
                    break
                if kind == 'in' and (got ^ assign[name]) & mask:
                    ctx.violation('cycle-next-state', f'after cycle({k}) input {name} is no longer held', case)
                    break
                if kind == 'out':
                    got1 = row_to_int(sim2.s[1, row, 0])
                    e = G.observed(net, v2)[(kind, name)]
                    if (got1 ^ e) & mask:
                        ctx.violation('cycle-next-state', f'after cycle({k}) output {name} differs from evaluation in the last cycle', case)
                        break
    ctx.sample({'netlist': G.net_text(net)[:700], 'c_reuse': case['c_reuse'], 'strip_forks': case['strip_forks'], 'sims': n,
                'stimulus': case['stim'], 'cycles': case['cycles']})


def corpus(ctx, big):
    """the shipped netlists through the real parsers + resolve, simulated under all option settings and compared with the
    harness' own line-level evaluation of the parsed graph"""
    import os
    from .. import REPO
    from kyupy import bench, verilog
    from kyupy.logic_sim import LogicSim
    from kyupy.techlib import SAED32, SAED90
    tests = os.path.join(REPO, 'tests')
    items = [('b01.bench', None, lambda: bench.load(os.path.join(tests, 'b01.bench'))),
             ('b01.v', SAED90, lambda: verilog.load(os.path.join(tests, 'b01.v'), tlib=SAED90)),
             ('gates.v', SAED90, lambda: verilog.load(os.path.join(tests, 'gates.v'), tlib=SAED90)),
             ('rng_haltonBase2.synth_yosys.v', SAED90, lambda: verilog.load(os.path.join(tests, 'rng_haltonBase2.synth_yosys.v'), tlib=SAED90))]
    if big:
        items.append(('b15_2ig.v.gz', SAED32, lambda: verilog.load(os.path.join(tests, 'b15_2ig.v.gz'), tlib=SAED32, branchforks=True)))
    n = 67
    mask = lanes_mask(n)
    for name, tlib, loader in items:
        case = {'corpus': name}
        with ctx.guard('simulation-raises', case):
            c = loader()
            if tlib is not None:
                c.resolve_tlib_cells(tlib)
            b, gt = G.extract(c)
            r = random.Random(name)
            assign = {nm: r.getrandbits(n) for kind, nm in b.s_order if kind != 'out'}
            for strip in (False, True):
                val = G.eval_lines(b, gt, assign, n, mode='bool', strip_forks=strip)
                for reuse in (False, True):
                    sim = LogicSim(c, sims=n, m=2, c_reuse=reuse, strip_forks=strip)
                    nb = sim.s.shape[-1]
                    for row, (kind, nm) in enumerate(b.s_order):
                        if kind != 'out':
                            sim.s[0, row, 0] = int_to_row(assign[nm], nb)
                            sim.s[0, row, 1] = sim.s[0, row, 0]
                    sim.s_to_c(); sim.c_prop(); sim.c_to_s()
                    for row, (kind, nm) in enumerate(b.s_order):
                        if kind == 'in':
                            continue
                        nd = c.s_nodes[row]
                        e = val[nd.ins[0].index] if (len(nd.ins) > 0 and nd.ins[0] is not None) else 0
                        got = row_to_int(sim.s[1, row, 0])
                        ctx.count('corpus_lane_checks', n)
                        if (got ^ e) & mask:
                            ctx.violation('captured-value', f'{name} (reuse={reuse} strip={strip}): {kind} {nm} lanes {diff_lanes(got, e, n)} differ from the evaluation of the parsed netlist', case)
                            break
            ctx.count('corpus_circuits')
        ctx.case(case, True, key=case)


def run(spec, ctx):
    if spec.get('corpus'):
        corpus(ctx, spec.get('big', False))
        return
    for i in range(spec['n']):
        rng = random.Random(f'C01/{spec["seed"]}/{spec["shard"]}/{i}')
        case = gen_case(rng, spec, i)
        check_case(case, ctx)


def replay(case, ctx):
    if case.get('corpus'):
        corpus(ctx, case['corpus'].startswith('b15'))
    else:
        check_case(case, ctx)
