"""C11 - parsed Verilog and bench netlists simulate as the described netlist."""
import random
import re

from .. import gen_circuit as G
from .. import gen_netlist as N
from .. import hier as H
from ..simutil import int_to_row, row_to_int, lanes_mask, diff_lanes, KRandom, parse_via

ID = 'C11'
TECHNIQUE = 'runtime monitoring: seeded netlist descriptions are rendered to randomized but grammar-conforming Verilog / bench text, parsed and resolved by the real code and simulated by the real LogicSim; port order and truth table are compared with an independent evaluation of the description'
LEVEL_TEXT = ('Netlists of 1-40 library cells (asymmetric cells from four libraries, flip-flops) are rendered with scalar/bus ports in both range directions, optional wire '
              'declarations, continuous assigns (alias chains in any order, bus-to-bus, concatenations on both sides, part selects, sized constants b/d/h), named pins in '
              'random order, empty pins, constants on pins, escaped identifiers, comments, attributes, shuffled statements; bench renderings vary keywords, '
              'comments, order, names. The real parsers + resolve_tlib_cells + LogicSim are run and compared with the description (own library parse + evaluator); '
              'branchforks on/off and Verilog vs bench renderings of one netlist are compared with each other. Held on what was generated.')
LEVEL_NOTE = 'trusted: vk/gen_netlist.py (description is the ground truth), vk/hier.py, vk/gen_circuit.py; only constructs of the supported subset are generated (named pins only)'
DESIGN_REF = 'DESIGN.md section 3 C11'
LEVEL = 'exploration'
RULE = ('Cases: (netlist description, rendering seed, format, branchforks). Non-trivial iff the rendering contains a bus of width >= 2 or an assign and the netlist has an '
        'asymmetric cell. Distinct = digest of the rendered text + options.'
        ' Renderer variety added later: assigns sharing an unresolved source, chains up to depth 4, escaped identifiers ended by tab/LF/CRLF, upper-case bases and other spellings of constants, width-one vectors by plain name, buses up to 70 bits with multi-digit bounds, one netlist of 150-320 instances per shard; texts reach the parser through parse(), load(path), load(.gz) or load(file object).')
ASSUMPTIONS = ['named pin connections only; every signal has exactly one driver; assign targets are not driven otherwise',
               'the order of input/output declaration statements equals the header order (so "declaration order" has one reading)',
               'state elements are matched by instance name']
REACH = {'verilog.module': ('verilog.py', 107, 215), 'verilog.expand': ('verilog.py', 64, 100), 'bench.transformer': ('bench.py', 16, 45)}

FEATURES = ['bus_desc', 'bus_asc', 'assign_alias', 'assign_chain', 'bus_concat_assign', 'lhs_concat_or_partselect', 'sized_constant_b', 'sized_constant_d',
            'sized_constant_h', 'const_pin', 'const_assign', 'empty_pin', 'escaped', 'line_comment', 'block_comment', 'attribute', 'shuffled', 'implicit_wire']


def plan(tier, seed):
    q = tier == 'quick'
    return [{'n': 100 if q else 3000, 'nb': 150 if q else 4000, 'npair': 60 if q else 1500} for _ in range(16)]


def conclude(agg):
    c = agg['counters']
    r = [f'syntactic feature {f} never generated' for f in FEATURES if c.get('feat/' + f, 0) == 0]
    r += [f'monitor counter {k} is zero' for k in ('verilog_texts', 'bench_texts', 'pairs', 'branchfork_pairs', 'lane_checks', 'port_order_checks', 'bench_outputs_read')
          if c.get(k, 0) == 0]
    if len(agg['sets'].get('libs', ())) < 4:
        r.append('fewer than four libraries used')
    return r


def truth(ctx, case, c, flat, label, src_order=None):
    """simulate parsed+resolved circuit c, compare with flat description; returns table {name: bitset} or None"""
    from kyupy.logic_sim import LogicSim
    exp_ports = flat['io_order']
    got_ports = [n.name for n in c.io_nodes]
    ctx.count('port_order_checks')
    if got_ports != exp_ports:
        ctx.violation('port-order', f'{label}: ports are {got_ports[:12]}, expected declaration order {exp_ports[:12]}', case)
        return None
    s_names = [n.name for n in c.s_nodes]
    ffs = [ff['name'] for ff in flat['ffs']]
    if sorted(s_names[len(got_ports):]) != sorted(ffs):
        ctx.violation('state-elements', f'{label}: state elements {s_names[len(got_ports):][:8]} differ from the description\'s {ffs[:8]}', case)
        return None
    if flat.get('ambiguous'):
        ctx.count('skipped/ambiguous_open_and_pin')      # see vk/hier.py: trailing open pin of an AND-type gate
        return {}
    srcs = src_order if src_order is not None else flat['inputs'] + ffs
    if len(srcs) <= 10:
        n = 1 << len(srcs)
        assign = {s: sum(1 << l for l in range(n) if (l >> i) & 1) for i, s in enumerate(srcs)}
    else:
        n = 200
        r = random.Random(case.get('rseed', 1))
        assign = {s: r.getrandbits(n) for s in srcs}
    mask = lanes_mask(n)
    val = G.eval_net(flat, assign, mask)
    exp = G.observed(flat, val)
    if not exp:
        return {}
    row = {nm: i for i, nm in enumerate(s_names)}
    sim = LogicSim(c, sims=n, m=2)
    nb = sim.s.shape[-1]
    for s in srcs:
        sim.s[0, row[s], 0] = int_to_row(assign[s], nb)
        sim.s[0, row[s], 1] = sim.s[0, row[s], 0]
    sim.s_to_c()
    sim.c_prop()
    sim.c_to_s()
    table = {}
    for (kind, name), e in exp.items():
        got = row_to_int(sim.s[1, row[name], 0]) & mask
        table[name] = got
        ctx.count('lane_checks', n)
        if got != e:
            lane = diff_lanes(got, e, n, 1)[0]
            ins = {s: (assign[s] >> lane) & 1 for s in srcs}
            ctx.violation('function', f'{label}: {kind} {name} = {(got >> lane) & 1} for {ins}; the described netlist gives {(e >> lane) & 1}', case)
            return None
    return table


def verilog_case(ctx, rng, idx):
    from kyupy import verilog
    import kyupy.techlib as T
    desc = N.gen_desc(rng, n_inst=(rng.choice([150, 320]) if idx == 1 else None))      # idx 1: a few hundred instances (more than 255 cells / signals)
    if idx == 1:
        ctx.count('large_cases')
    ctx.hit('libs', desc['lib'])
    flat = N.flat_net(desc)
    text, feats = N.render_verilog(desc, rng)
    bf = rng.random() < 0.4
    case = {'kind': 'verilog', 'lib': desc['lib'], 'text': text, 'branchforks': bf, 'rseed': rng.randrange(1 << 30), 'desc': desc}
    for f in feats:
        ctx.count('feat/' + f)
    ctx.count('verilog_texts')
    lib = getattr(T, desc['lib'])
    with ctx.guard('parse-raises', case):
        c = parse_via(verilog, text, rng, ctx, tlib=lib, branchforks=bf)
        c.resolve_tlib_cells(lib)
        t1 = truth(ctx, case, c, flat, f'verilog ({desc["lib"]}, branchforks={bf})')
        if t1 is not None and idx % 3 == 0:
            # requesting branch forks only inserts forks
            c0 = verilog.parse(text, tlib=lib, branchforks=False)
            c1 = verilog.parse(text, tlib=lib, branchforks=True)
            ctx.count('branchfork_pairs')
            isbf = lambda n: n.kind == '__fork__' and '~' in n.name and '/' in n.name
            k0 = sorted((n.name, n.kind) for n in c0.nodes)
            k1 = sorted((n.name, n.kind) for n in c1.nodes if not isbf(n))
            nbf = sum(1 for n in c1.nodes if isbf(n))
            if k0 != k1 or len(c1.lines) != len(c0.lines) + nbf or [n.name for n in c0.io_nodes] != [n.name for n in c1.io_nodes]:
                ctx.violation('branchforks', f'branchforks=True changes more than inserting forks: {len(c0.nodes)} vs {len(c1.nodes)} nodes ({nbf} branch forks), '
                              f'{len(c0.lines)} vs {len(c1.lines)} lines', case)
            else:
                c1.resolve_tlib_cells(lib)
                truth(ctx, dict(case, branchforks=True), c1, flat, f'verilog ({desc["lib"]}, branchforks=True)')
    wide = any(p['range'] and len(p['bits']) >= 2 for p in desc['ports'])
    asym = any(re.match(r'(AOI|OAI|AO|OA|MUX|MX|FA|ADD|DEC)', i['cell']) for i in desc['insts'])
    ctx.case(None, (wide or 'assign' in text) and asym, key=[text, bf])
    if idx < 2:
        ctx.sample({'format': 'verilog', 'lib': desc['lib'], 'branchforks': bf, 'features': sorted(feats), 'text': text[:900]})


def bench_case(ctx, rng, idx):
    from kyupy import bench
    net = N.gen_prim_desc(rng)
    text, order = N.render_bench(net, rng)
    net['io_order'] = order
    case = {'kind': 'bench', 'text': text, 'rseed': rng.randrange(1 << 30), 'rngkey': getattr(rng, 'key', None)}
    ctx.count('bench_texts')
    read = {s for g in net['gates'] for s in g['ins']} | {ff['d'] for ff in net['ffs']}
    if any(o['sig'] in read for o in net['outputs']):
        ctx.count('bench_outputs_read')
    with ctx.guard('parse-raises', case):
        c = parse_via(bench, text, rng, ctx, name='top')
        truth(ctx, case, c, net, 'bench')
    ctx.case(None, len(net['gates']) >= 3, key=text)
    if idx < 1:
        ctx.sample({'format': 'bench', 'text': text[:500]})


def pair_case(ctx, rng, idx):
    """one primitive netlist written in both formats: both must match the description, hence each other"""
    from kyupy import bench, verilog
    import kyupy.techlib as T
    net = N.gen_prim_desc(rng)
    insts = N.prim_to_verilog_desc(net, rng)
    if insts is None:
        return
    btext, order = N.render_bench(net, rng)
    net['io_order'] = order

    def san(nm):
        s = re.sub(r'[^A-Za-z0-9_]', '_', nm)
        return ('n' + s) if s[0].isdigit() else s
    names = {}
    for nm in net['inputs'] + [g['out'] for g in net['gates']] + [ff['q'] for ff in net['ffs']]:
        s = san(nm)
        while s in names.values():
            s += '_'
        names[nm] = s
    ports = [{'name': names[p], 'dir': 'input' if p in net['inputs'] else 'output', 'range': None, 'bits': [names[p]]} for p in order]
    vinsts = []
    for i in insts:
        vinsts.append({'name': i['name'] if i['name'] not in names else names[i['name']], 'cell': i['cell'],
                       'in': {p: (names[s] if s is not None else None) for p, s in i['in'].items()},
                       'out': {p: (names[s] if s is not None else None) for p, s in i['out'].items()}})
    out_names = {names[o['name']] for o in net['outputs']}
    desc = {'lib': 'NANGATE', 'ports': ports, 'insts': vinsts, 'outmap': {b: b for b in out_names}, 'wire_buses': [],
            'wires': [names[g['out']] for g in net['gates'] if names[g['out']] not in out_names] + [names[ff['q']] for ff in net['ffs'] if names[ff['q']] not in out_names],
            'esc': [], 'module': 'pair'}
    # the flip-flop instance carries the (sanitised) name of its output signal
    vtext, feats = N.render_verilog(desc, rng, style={'aliases': False})
    case = {'kind': 'pair', 'bench': btext, 'verilog': vtext, 'rseed': rng.randrange(1 << 30), 'rngkey': getattr(rng, 'key', None)}
    ctx.count('pairs')
    with ctx.guard('parse-raises', case):
        cb = bench.parse(btext)
        tb = truth(ctx, case, cb, net, 'bench rendering')
        cv = verilog.parse(vtext, tlib=T.NANGATE)
        cv.resolve_tlib_cells(T.NANGATE)
        vflat = N.flat_net(desc)
        tv = truth(ctx, case, cv, vflat, 'verilog rendering', src_order=[names[s] for s in net['inputs'] + [ff['name'] for ff in net['ffs']]])
        if tb is not None and tv is not None:
            for o in net['outputs']:
                if tb.get(o['name']) != tv.get(names[o['name']]):
                    ctx.violation('format-equivalence', f'output {o["name"]} differs between the bench and the Verilog rendering of one netlist', case)
                    break
    ctx.case(None, len(net['gates']) >= 3, key=[btext, vtext])


def run(spec, ctx):
    for i in range(spec['n']):
        verilog_case(ctx, KRandom(f'C11v/{spec["seed"]}/{spec["shard"]}/{i}'), i)
    for i in range(spec['nb']):
        bench_case(ctx, KRandom(f'C11b/{spec["seed"]}/{spec["shard"]}/{i}'), i)
    for i in range(spec['npair']):
        pair_case(ctx, KRandom(f'C11p/{spec["seed"]}/{spec["shard"]}/{i}'), i)


def replay(case, ctx):
    from kyupy import bench, verilog
    import kyupy.techlib as T
    k = case.get('kind')
    if k == 'verilog':
        lib = getattr(T, case['lib'])
        flat = N.flat_net(case['desc'])
        with ctx.guard('parse-raises', case):
            c = parse_via(verilog, case['text'], None, ctx, tlib=lib, branchforks=case['branchforks'])
            c.resolve_tlib_cells(lib)
            truth(ctx, case, c, flat, 'verilog replay')
        ctx.case(None, True, key=case['text'])
    else:
        (bench_case if k == 'bench' else pair_case)(ctx, KRandom(case['rngkey']), 9)
