"""C05 - 8-valued logic simulation conservatively predicts timing simulation."""
import random

import numpy as np

from .. import gen_circuit as G
from .. import ref_mv as R
from .. import wave as W
from .. import wavecase as WC
from ..enc import to_bp, from_bp

ID = 'C05'
TECHNIQUE = 'runtime monitoring: differential execution of the two real simulators (LogicSim m=8 vs WaveSim/WaveSimCuda) on the same stimulus; waveforms decoded from signal memory are checked against the 8-valued prediction on ports and internal lines'
LEVEL_TEXT = ('For seeded circuits, delays and {0,1,R,F} stimuli with arbitrary transition times both real simulators are run with independently drawn '
              'options; the monitor checks that initial/final of every captured row (and of every internal line when both keep their memory) equal the '
              'initial/final component of the 8-valued value and that wherever the 8-valued value is a plain 0/1 the waveform holds no transition. '
              'The 8-valued side is additionally guarded by the algebra model (C02).')
LEVEL_NOTE = 'trusted: vk/wave.py decoder, vk/enc.py; the property is a relation between the two real simulators, the algebra model only guards against both being wrong alike'
DESIGN_REF = 'DESIGN.md section 3 C05'
LEVEL = 'exploration'
RULE = ('Cases: (circuit, delays, one-transition stimulus, WaveSim class/options, LogicSim options). Non-trivial iff some line is a hazard-free constant '
        'according to 8-valued simulation while another line of the same run carries >= 2 transitions. Distinct = digest of all case fields.'
        ' One large case per shard; a share of the cases captures at a finite sampling time.')
ASSUMPTIONS = ['stimulus values are 0, 1, R, F (one transition at most per input, as s[0..2] can express)', 'delays >= 0 on the dyadic grid']
REACH = {'logic_sim.m8': ('logic_sim.py', 184, 260), 'wave_sim._wave_eval': ('wave_sim.py', 155, 265)}


def plan(tier, seed):
    n = 400 if tier == 'quick' else 8000
    return [{'n': n} for _ in range(16)]


def conclude(agg):
    c = agg['counters']
    return [f'monitor counter {k} is zero' for k in ('constant_lines_checked', 'port_rows', 'internal_lines', 'glitching_lines', 'cases/cuda', 'cases/cpu', 'captures_at_finite_time')
            if c.get(k, 0) == 0]


def check_case(case, ctx):
    from kyupy.logic_sim import LogicSim
    r = WC.materialize(case)
    net, n, b = r.net, r.sims, r.b
    lo = case['lsim']
    n_const = n_glitch = 0
    with ctx.guard('simulation-raises', case):
        ws = WC.make_sim(r)
        if case.get('cap_time') is None:
            WC.simulate(r, ws)
        else:
            # initial/final value, earliest arrival and latest stabilisation do not depend on the time at which the value is sampled
            WC.simulate(r, ws, capture=False)
            ws.c_to_s(time=case['cap_time'])
            ctx.count('captures_at_finite_time')
        ls = LogicSim(b.c, sims=n, m=8, c_reuse=lo['c_reuse'], strip_forks=lo['strip_forks'])
        rows = []
        for kind, name in b.s_order:
            if kind == 'out':
                rows.append([R.UNASSIGNED] * n)
            else:
                rows.append([R.enc(init, init ^ (len(ts) & 1), len(ts) & 1) for init, ts in r.stim[name]])
        ls.s[0] = to_bp(np.array(rows, dtype=np.uint8), 3)
        ls.s_to_c()
        ls.c_prop()
        ls.c_to_s()
        lv = from_bp(ls.s[1], n)
        s = np.asarray(ws.s)
        c = np.asarray(ws.c)
        ctx.count('cases/' + case['cls'])
        for row, (kind, name) in enumerate(b.s_order):
            if kind == 'in':
                continue
            for lane in range(n):
                v = int(lv[row, lane])
                ctx.count('port_rows')
                if v in (1, 2):
                    ctx.violation('prediction', f'{kind} {name} lane {lane}: 8-valued result is unknown although all inputs are 0/1/R/F', case)
                    return
                gi, gf = int(s[3, row, lane]), int(s[6, row, lane])
                if gi != (v >> 1) & 1 or gf != v & 1:
                    ctx.violation('prediction', f'{kind} {name} lane {lane}: timing simulation initial/final {gi}/{gf}, 8-valued simulation says {R.CHARS[v]}; '
                                  f'{case["cls"]} {G.net_text(net)[:400]}', case)
                    return
                if v in (0, 3):
                    ctx.count('constant_lines_checked')
                    if s[4, row, lane] < W.TMAX or s[5, row, lane] > W.TMIN:
                        ctx.violation('hazard-free-constant', f'{kind} {name} lane {lane}: 8-valued simulation reports the hazard-free constant {R.CHARS[v]} but the '
                                      f'waveform has transitions (EAT {s[4, row, lane]}, LST {s[5, row, lane]}); {case["cls"]} {G.net_text(net)[:400]}', case)
                        return
        if not case['c_reuse'] and not lo['c_reuse']:
            for li, sig in b.line_sig.items():
                loc, cap = int(ws.c_locs[li]), int(ws.c_caps[li])
                lval = from_bp(ls.c[int(ls.c_locs[li])][None], n)[0]
                for lane in range(n):
                    v = int(lval[lane])
                    init, times, term = W.decode_col(c[loc:loc + cap, lane])
                    ctx.count('internal_lines')
                    if len(times) >= 2:
                        n_glitch += 1
                    if v in (1, 2):
                        ctx.violation('prediction', f'line {li} ({sig}) lane {lane}: 8-valued value unknown', case)
                        return
                    if init != (v >> 1) & 1 or (init ^ (len(times) & 1)) != v & 1:
                        ctx.violation('prediction', f'line {li} ({sig}) lane {lane}: waveform {init}->{init ^ (len(times) & 1)} vs 8-valued {R.CHARS[v]}', case)
                        return
                    if v in (0, 3):
                        n_const += 1
                        ctx.count('constant_lines_checked')
                        if times:
                            ctx.violation('hazard-free-constant', f'line {li} ({sig}) lane {lane}: 8-valued simulation reports the hazard-free constant {R.CHARS[v]} '
                                          f'but the waveform has transitions at {times[:6]}; {case["cls"]} strip={case["strip_forks"]}/{lo["strip_forks"]}; {G.net_text(net)[:400]}', case)
                            return
        ctx.count('glitching_lines', n_glitch)
    ctx.case(case, n_const > 0 and n_glitch > 0, key=WC.key_of(case) + [lo['c_reuse'], lo['strip_forks']])
    ctx.sample({'netlist': G.net_text(net)[:400], 'wave': {k: case[k] for k in ('cls', 'c_reuse', 'strip_forks', 'caps', 'kmax')}, 'logic': lo,
                'stimulus_lane0': {s_: r.stim[s_][0] for s_ in list(r.stim)[:4]}})


def run(spec, ctx):
    for i in range(spec['n']):
        rng = random.Random(f'C05/{spec["seed"]}/{spec["shard"]}/{i}')
        case = WC.gen_case(rng, multi=False, caps=rng.choice([4, 8, 16, 32, 'perline']) if i != 1 else None, large=(i == 1))
        if i == 1:
            ctx.count('large_cases')
        case['lsim'] = {'c_reuse': rng.random() < 0.3, 'strip_forks': rng.random() < 0.4}
        case['cap_time'] = rng.choice([None, None, None, 0.0, 20.25, 74.5, 150.0])
        if rng.random() < 0.6:
            case['c_reuse'] = False
            case['lsim']['c_reuse'] = False
        check_case(case, ctx)


def replay(case, ctx):
    check_case(case, ctx)
