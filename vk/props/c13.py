"""C13 - capture results and switching-activity counts faithfully summarise waveforms."""
import random

import numpy as np

from .. import gen_circuit as G
from .. import wave as W
from .. import wavecase as WC

ID = 'C13'
TECHNIQUE = 'runtime monitoring: capture rows are compared with an independent decoding of the very waveform memory the capture read; overflow-indicator soundness by differential run at capacity 256; accumulation buffer compared with transition counts decoded from the final waveforms (one and two propagations)'
LEVEL_TEXT = ('Real WaveSim/WaveSimCuda runs on seeded circuits, delays, stimuli, capacities (incl. overflowing) and capture times on and off the time grid: every '
              's[3..8], s[10] entry is recomputed from the decoded output waveform; every line without overflow marker must equal the run with capacity 256; '
              'abuf must equal the weighted rise/fall counts of the waveforms in memory after one and after two propagations for random control tables '
              '(-1 entries, shared accumulators, signed weights). Held on what was generated.')
LEVEL_NOTE = 'trusted: vk/wave.py decoder and transition counting; the capacity-256 run must itself be free of overflow markers, otherwise that case is counted as inconclusive'
DESIGN_REF = 'DESIGN.md section 3 C13'
LEVEL = 'exploration'
RULE = ('Cases as C03 plus capture time T and an accumulation-control table. Non-trivial iff some captured output has >= 2 transitions and some waveform of the run '
        'overflowed. Distinct = digest of all case fields.'
        ' One large case per shard; a second propagation is compared waveform by waveform.')
ASSUMPTIONS = ['sd = 0 (deterministic capture)', 'a_ctrl has the documented shape (len(lines), 3); circuits with cells lacking an output line are not combined with a_ctrl',
               'rises/falls are those of the waveform as stored (after overflow handling)']
REACH = {'wave_sim.capture_cpu': ('wave_sim.py', 283, 327), 'wave_sim.capture_gpu': ('wave_sim.py', 445, 502), 'wave_sim.accumulate': ('wave_sim.py', 261, 281)}
REACH_TEXT = {'ovl-flag': ('wave_sim.py', 'ovl = 1'), 'abuf-cpu': ('wave_sim.py', 'abuf[a_loc, sim] += nrise*a_wr + nfall*a_wf'),
              'abuf-gpu': ('wave_sim.py', 'cuda.atomic.add(abuf, (a_loc, sim), nrise*a_wr + nfall*a_wf)')}


def plan(tier, seed):
    q = tier == 'quick'
    return [{'n': 250 if q else 6000} for _ in range(16)]


def conclude(agg):
    c = agg['counters']
    return [f'monitor counter {k} is zero' for k in ('capture_rows', 'capture_at_transition_time', 'overflow_flag_set', 'overflow_free_lines_compared', 'abuf_cells',
                                                     'abuf_nonzero', 'abuf_second_prop', 'cases/cuda_abuf', 'reached/ovl-flag', 'reached/abuf-cpu', 'reached/abuf-gpu')
            if c.get(k, 0) == 0]


def check_case(case, ctx):
    r = WC.materialize(case)
    net, b, n = r.net, r.b, r.sims
    nl = len(b.c.lines)
    rr = random.Random(case['stim_seed'] ^ 0xC13)
    nontrivial_multi = nontrivial_ovl = False
    a_ctrl = None
    if case['use_abuf']:
        na = rr.randint(1, 5)
        a_ctrl = np.zeros((nl, 3), dtype=np.int32)
        for li in range(nl):
            a_ctrl[li] = (rr.choice([-1] + list(range(na))), rr.randint(-3, 5), rr.randint(-3, 5))
    with ctx.guard('simulation-raises', case):
        sim = WC.make_sim(r, c_reuse=False if case['use_abuf'] else None, a_ctrl=a_ctrl)
        W.apply_stim(sim, b, r.stim)
        sim.c_prop()
        c = np.asarray(sim.c).copy()
        # ---- capture at time T ---------------------------------------------------------------------
        ppo = [(row, kind, name) for row, (kind, name) in enumerate(b.s_order) if kind != 'in']
        all_times = []
        decoded = {}
        for row, kind, name in ppo:
            loc, cap = int(sim.c_locs[sim.ppo_offset + row]), int(sim.c_caps[sim.ppo_offset + row])
            for lane in range(n):
                d = W.decode_col(c[loc:loc + cap, lane])
                decoded[(row, lane)] = d
                all_times += d[1]
        mode = rr.choice(['default', 'grid', 'offgrid', 'attime'])
        if mode == 'attime' and not all_times:
            mode = 'grid'
        T = {'default': None, 'grid': rr.randrange(0, 1200) / 4, 'offgrid': rr.randrange(0, 1200) / 4 + 0.125,
             'attime': rr.choice(all_times) if all_times else 0.0}[mode]
        if mode == 'attime':
            ctx.count('capture_at_transition_time')
        if T is None:
            sim.c_to_s()
            Tcmp = float(W.TMAX)
        else:
            sim.c_to_s(time=T)
            Tcmp = T
        s = np.asarray(sim.s)
        for row, kind, name in ppo:
            for lane in range(n):
                init, times, term = decoded[(row, lane)]
                ctx.count('capture_rows')
                exp = {3: init, 4: min(times) if times else float(W.TMAX), 5: max(times) if times else float(W.TMIN),
                       6: init ^ (len(times) & 1), 10: 1 if term == W.TMAX_OVL else 0}
                v = init ^ (sum(1 for t in times if t < Tcmp) & 1)
                exp[7] = v
                exp[8] = v
                if len(times) >= 2:
                    nontrivial_multi = True
                if exp[10]:
                    ctx.count('overflow_flag_set')
                for k, e in exp.items():
                    if float(s[k, row, lane]) != float(e):
                        ctx.violation('capture-summary', f'{kind} {name} lane {lane}: s[{k}] = {s[k, row, lane]} but the waveform (init {init}, times {times[:8]}, '
                                      f'overflow {term == W.TMAX_OVL}) gives {e} (capture time {T}); {case["cls"]}; {G.net_text(net)[:300]}', dict(case, T=T))
                        return
        # ---- overflow indicator soundness ----------------------------------------------------------
        big = WC.make_sim(r, caps=256, c_reuse=False if case['use_abuf'] else None)
        W.apply_stim(big, b, r.stim)
        big.c_prop()
        cb = np.asarray(big.c)
        lines = list(b.line_sig) if not sim_reuse(case) else []
        targets = [(int(sim.c_locs[li]), int(sim.c_caps[li]), int(big.c_locs[li]), f'line {li}') for li in lines]
        if sim_reuse(case):
            targets = [(int(sim.c_locs[sim.ppo_offset + row]), int(sim.c_caps[sim.ppo_offset + row]), int(big.c_locs[big.ppo_offset + row]), f'{kind} {name}')
                       for row, kind, name in ppo]
        for loc, cap, bloc, label in targets:
            for lane in range(n):
                init, times, term = W.decode_col(c[loc:loc + cap, lane])
                if term == W.TMAX_OVL:
                    nontrivial_ovl = True
                    continue
                bi, bt, bterm = W.decode_col(cb[bloc:bloc + 256, lane])
                if bterm == W.TMAX_OVL or bterm is None:
                    ctx.count('inconclusive_big_overflow')
                    continue
                ctx.count('overflow_free_lines_compared')
                if (init, times) != (bi, bt):
                    ctx.violation('overflow-indicator', f'{label} lane {lane}: no overflow marker, but its waveform {times[:8]} differs from the unlimited-capacity '
                                  f'waveform {bt[:8]}; caps={case["caps"]} {case["cls"]}; {G.net_text(net)[:300]}', case)
                    return
        # ---- accumulation buffer ---------------------------------------------------------------------
        if a_ctrl is not None:
            ctx.count('cases/' + case['cls'] + '_abuf')
            order, deps = W.line_deps(b.c, strip_forks=case['strip_forks'])
            evaluated = [li for li in order if deps[li][0] not in ('alias', 'zero')]       # netlist-derived set of evaluated lines
            for rounds in (1, 2):
                exp = np.zeros_like(np.asarray(sim.abuf))
                for z in evaluated:
                    if a_ctrl[z, 0] < 0:
                        continue
                    loc, cap = int(sim.c_locs[z]), int(sim.c_caps[z])
                    for lane in range(n):
                        init, times, term = W.decode_col(c[loc:loc + cap, lane])
                        ri, fa = W.count_rf(init, len(times))
                        exp[a_ctrl[z, 0], lane] += rounds * (ri * int(a_ctrl[z, 1]) + fa * int(a_ctrl[z, 2]))
                # the accumulators in use are rows 0 .. max(a_ctrl[z, 0]) over the evaluated lines z and the lanes of the simulator; the buffer may be allocated larger
                n_acc = max([int(a_ctrl[z, 0]) for z in evaluated] + [-1]) + 1        # (accumulators of the lines that are evaluated at all)
                got = np.asarray(sim.abuf)[:n_acc, :n]
                exp = exp[:n_acc, :n]
                ctx.count('abuf_cells', int(exp.size))
                ctx.count('abuf_nonzero', int((exp != 0).sum()))
                if got.shape != exp.shape or not np.array_equal(got, exp):
                    idx = tuple(int(x[0]) for x in np.nonzero(got != exp)) if got.shape == exp.shape else ()
                    ctx.violation('accumulation', f'abuf{list(idx)} = {got[idx] if idx else got.shape} after {rounds} propagation(s), weighted rise/fall count of the '
                                  f'waveforms gives {exp[idx] if idx else exp.shape}; {case["cls"]}; {G.net_text(net)[:300]}', case)
                    return
                if rounds == 1:
                    sim.c_prop()
                    ctx.count('abuf_second_prop')
                    if not W.same_waveforms(sim, sim.c, sim, c):
                        ctx.violation('accumulation', 'a second propagation of the same inputs changed the waveforms', case)
                        return
    ctx.case(case, nontrivial_multi and nontrivial_ovl, key=WC.key_of(case) + [case['use_abuf']])
    ctx.sample({'netlist': G.net_text(net)[:300], **{k: case[k] for k in ('cls', 'c_reuse', 'strip_forks', 'sims', 'caps', 'use_abuf')}})


def sim_reuse(case):
    return case['c_reuse'] and not case['use_abuf']


def run(spec, ctx):
    for i in range(spec['n']):
        rng = random.Random(f'C13/{spec["seed"]}/{spec["shard"]}/{i}')
        use_abuf = i % 3 == 0
        feats = None
        if use_abuf:
            feats = [f for f in WC.FEATS if f != 'unconn_out' and rng.random() < 0.25]
        case = WC.gen_case(rng, feats=feats, xor_rich=True if i % 2 else None, caps=4 if (i % 4 == 1 and i != 1) else None, large=(i == 1))
        if i == 1:
            ctx.count('large_cases')
        case['use_abuf'] = use_abuf
        check_case(case, ctx)


def replay(case, ctx):
    check_case(case, ctx)
