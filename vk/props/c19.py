"""C19 - built-in library cells have consistent pins and datasheet Boolean functions."""
import ast
import inspect
import itertools
import re

import numpy as np

from ..simutil import int_to_row, row_to_int

ID = 'C19'
TECHNIQUE = 'runtime monitoring: every cell of the five built-in libraries is instantiated, resolved by the real resolve_tlib_cells and simulated by the real LogicSim for all input combinations; outputs are compared with a hand-written datasheet family table; pin tables are compared with the declarations in the library source text'
LEVEL_TEXT = ('Exhaustive over the finite space: every cell name of GSC180, NANGATE, NANGATE_ZN, SAED32, SAED90 (about 1000) x all input combinations. Pin tables are '
              'checked against an own parse of the library source (each pin once, inputs/outputs numbered 0..n-1 in declaration order, agreement with the '
              'implementation circuit\'s port order, every brace-expanded name defined). Purely combinational cells of a listed family are instantiated, resolved '
              'and simulated by the real code and compared with the family function by pin name.')
LEVEL_NOTE = 'trusted: the family table in this module (written from the vendor datasheet conventions: AND/OR/NAND/NOR/XOR/XNOR n, BUF/INV, AO/OA/AOI/OAI groupings per library, MUX2/MUX21/MX2/MUX41, half/full adders by pin name); C01 anchors LogicSim itself'
DESIGN_REF = 'DESIGN.md section 3 C19'
LEVEL = 'exploration'
EXHAUSTIVE = True
RULE = ('One case per (library, cell name); all 2^n input combinations are lanes of one simulation. Families without a datasheet Boolean function in the table '
        '(clock gates, isolation cells, decoder, tri-state, sequential cells, fillers, power switches) get the pin checks only. Non-trivial iff the cell has >= 2 '
        'input pins. Distinct = distinct (library, cell).')
ASSUMPTIONS = ['the declaration text inside kyupy/techlib.py is the reference for pin order; the family table is the reference for functions',
               'unlisted families are not function-checked']
REACH = {'techlib.TechLib': ('techlib.py', 66, 101)}

LIBS = ['GSC180', 'NANGATE', 'NANGATE_ZN', 'SAED32', 'SAED90']


def plan(tier, seed):
    return [{'lib': l, 'part': p, 'parts': 3} for l in LIBS for p in range(3)] + [{'lib': l, 'pins_only': True} for l in LIBS[:1]]


def conclude(agg):
    c = agg['counters']
    r = [f'monitor counter {k} is zero' for k in ('cells_pin_checked', 'cells_function_checked', 'input_combinations', 'family/adder', 'family/mux', 'family/aoi_oai',
                                                  'family/simple', 'names_expanded') if c.get(k, 0) == 0]
    if len(agg['sets'].get('libs', ())) < 5:
        r.append('not all five libraries were visited')
    return r


# ---- own parse of the library source -------------------------------------------------------------

def lib_sources():
    import kyupy.techlib as T
    tree = ast.parse(inspect.getsource(T))
    out = {}
    for node in tree.body:
        if isinstance(node, ast.Assign) and isinstance(node.value, ast.Call) and getattr(node.value.func, 'id', None) == 'TechLib':
            src = eval(compile(ast.Expression(node.value.args[0]), 'techlib-arg', 'eval'), T.__dict__)
            out[node.targets[0].id] = src
    return out


def expand(name):
    parts = [s[1:-1].split(',') if s.startswith('{') else [s] for s in re.split(r'({[^}]*})', name) if s]
    return [''.join(p) for p in itertools.product(*parts)]


def parse_defs(src):
    """-> list of (name pattern, [declared inputs], [declared outputs], body text)"""
    defs = []
    for d in re.split(r';\s', src + ' '):
        d = d.strip()
        if not d:
            continue
        m = re.match(r'(\S+)\s*(.*)$', d, re.S)
        name, body = m.group(1), m.group(2)
        ins, outs = [], []
        for kw, lst in re.findall(r'\b(input|output)\s*\(([^)]*)\)', body):
            names = [x.strip() for x in lst.split(',') if x.strip()]
            (ins if kw == 'input' else outs).extend(names)
        defs.append((name, ins, outs, body))
    return defs


# ---- datasheet family table --------------------------------------------------------------------------

def _all(p, names):
    return [p[n] for n in names]


def AND(v):
    return int(all(v))


def OR(v):
    return int(any(v))


def XOR(v):
    return sum(v) & 1


def maj(a, b, c):
    return int(a + b + c >= 2)


def family(lib, cell, ins, outs):
    """-> (family label, function(p: dict pin->0/1) -> dict out pin -> 0/1) or None"""
    o = outs[0] if outs else None
    base = re.sub(r'(_[RLH]VT)$', '', cell)

    def single(f):
        return lambda p: {o: f(p)}
    m = re.match(r'^(AND|OR|NAND|NOR|XOR|XNOR)(\d)(X\d+|_X\d+)$', base)
    if m and len(outs) == 1 and int(m.group(2)) == len(ins):
        f = {'AND': AND, 'OR': OR, 'XOR': XOR}[m.group(1).replace('N', '', 1) if m.group(1) in ('NAND', 'NOR') else m.group(1).replace('XNOR', 'XOR')]
        neg = m.group(1) in ('NAND', 'NOR', 'XNOR')
        return 'simple', single(lambda p: f(_all(p, ins)) ^ neg)
    if re.match(r'^(BUFX|CLKBUFX|BUF_X|CLKBUF_X|NBUFFX|AOBUFX|DELLN\dX)\d+$', base) and len(ins) == 1:
        return 'simple', single(lambda p: p[ins[0]])
    if re.match(r'^(INVX|INV_X|AOINVX|IBUFFX)\d+$', base) and len(ins) == 1:
        return 'simple', single(lambda p: 1 - p[ins[0]])
    if re.match(r'^(LOGIC0_X1|TIEL)$', base):
        return 'simple', single(lambda p: 0)
    if re.match(r'^(LOGIC1_X1|TIEH)$', base):
        return 'simple', single(lambda p: 1)
    # multiplexers
    if re.match(r'^(MX2X1|MUX2_X\d)$', base):
        s = 'S0' if 'S0' in ins else 'S'
        return 'mux', single(lambda p: p['B'] if p[s] else p['A'])
    if re.match(r'^MUX21X\d$', base):
        a, b_, s = ins
        return 'mux', single(lambda p: p[b_] if p[s] else p[a])
    if re.match(r'^MUX41X\d$', base):
        d0, d1, d2, d3, s0, s1 = ins
        return 'mux', single(lambda p: [p[d0], p[d1], p[d2], p[d3]][p[s0] + 2 * p[s1]])
    # adders by pin name
    if re.match(r'^(ADDFX1|FA_X1|FADDX\d)$', base):
        return 'adder', lambda p: {'S': p['A'] ^ p['B'] ^ p['CI'], 'CO': maj(p['A'], p['B'], p['CI'])}
    if re.match(r'^(ADDHX1|HA_X1)$', base):
        return 'adder', lambda p: {'S': p['A'] ^ p['B'], 'CO': p['A'] & p['B']}
    if re.match(r'^HADDX\d$', base):
        return 'adder', lambda p: {'SO': p['A0'] ^ p['B0'], 'C1': p['A0'] & p['B0']}
    # AND-OR(-INVERT) / OR-AND(-INVERT) families, with each library's pin grouping
    m = re.match(r'^(AO|OA|AOI|OAI)(\d+)(X\d+|_X\d+)$', base)
    if m and len(outs) == 1:
        kind, grp = m.group(1), m.group(2)
        inner, outer = (AND, OR) if kind.startswith('AO') else (OR, AND)
        neg = kind.endswith('I')
        sizes = [int(ch) for ch in grp]
        if sum(sizes) != len(ins):
            return None
        if lib.startswith('GSC'):
            # A0,A1,(A2),B0,B1,(B2): groups by letter in declaration order
            groups, k = [], 0
            for sz in sizes:
                groups.append(ins[k:k + sz])
                k += sz
        elif lib.startswith('NANGATE'):
            # groups are named by letter; single-pin groups are 'A' / 'B', larger ones 'X1','X2',..
            letters = sorted({re.match(r'[A-Z]+', n).group(0) for n in ins})
            groups = [[n for n in ins if re.match(r'[A-Z]+', n).group(0) == L] for L in letters]
            if sorted(len(g) for g in groups) != sorted(sizes):
                return None
        else:
            # SAED: pins numbered consecutively, groups in the order of the name's digits: AO221 = (1,2)(3,4)(5)
            groups, k = [], 0
            for sz in sizes:
                groups.append(ins[k:k + sz])
                k += sz
        return 'aoi_oai', single(lambda p: outer([inner(_all(p, g)) for g in groups]) ^ neg)
    return None


# ---- checks ------------------------------------------------------------------------------------------

def check_pins(ctx, libname, lib, pattern, ins, outs):
    names = expand(pattern)
    ctx.count('names_expanded', len(names))
    for nm in names:
        case = {'lib': libname, 'cell': nm}
        if nm not in lib.cells:
            ctx.violation('name-expansion', f'{libname}: name {nm} (from {pattern}) has no entry in the library', case)
            continue
        circ, pins = lib.cells[nm][0], lib.cells[nm][1]          # (implementation circuit, pin table) are the documented leading fields of an entry
        ctx.count('cells_pin_checked')
        if len(set(ins)) != len(ins) or len(set(outs)) != len(outs) or set(ins) & set(outs):
            ctx.violation('pin-table', f'{libname}.{nm}: a pin is declared twice: inputs {ins}, outputs {outs}', case)
            continue
        exp = {n: (k, False) for k, n in enumerate(ins)}
        exp.update({n: (k, True) for k, n in enumerate(outs)})
        got_pins = {n_: (v_[0], bool(v_[1])) for n_, v_ in dict(pins).items()}
        if got_pins != exp:
            ctx.violation('pin-table', f'{libname}.{nm}: pin table {got_pins} differs from the declaration order inputs {ins} outputs {outs}', case)
            continue
        impl_in = [n.name for n in circ.io_nodes if len(n.ins) == 0]
        impl_out = [n.name for n in circ.io_nodes if len(n.ins) > 0]
        if impl_in != ins or impl_out != outs:
            ctx.violation('pin-table', f'{libname}.{nm}: implementation ports in={impl_in} out={impl_out} disagree with the declaration in={ins} out={outs} '
                          f'(an undriven output shows up as input)', case)


def check_function(ctx, libname, lib, nm, ins, outs):
    from kyupy.circuit import Circuit, Node, Line
    from kyupy.logic_sim import LogicSim
    case = {'lib': libname, 'cell': nm}
    circ, pins = lib.cells[nm][0], lib.cells[nm][1]
    if any('dff' in n.kind.lower() or 'latch' in n.kind.lower() for n in circ.nodes):
        ctx.count('skipped/sequential')
        return
    fam = family(libname, nm, ins, outs)
    ctx.case(case, len(ins) >= 2, key=[libname, nm])
    if fam is None:
        ctx.count('skipped/unlisted_family')
        ctx.hit('unlisted', re.sub(r'\d+(_[RLH]VT)?$', '', nm))
        return
    label, f = fam
    ctx.count('family/' + label)
    n = len(ins)
    lanes = 1 << n
    with ctx.guard('resolve-or-simulate-raises', case):
        c = Circuit('host')
        cell = Node(c, 'u', nm)
        for k, pn in enumerate(ins):
            pi = Node(c, f'pi_{pn}', 'input')
            c.io_nodes.append(pi)
            fk = Node(c, f'pi_{pn}')
            Line(c, pi, fk)
            Line(c, fk, (cell, lib.pin_index(nm, pn)))
        for pn in outs:
            fk = Node(c, f'po_{pn}')
            Line(c, (cell, lib.pin_index(nm, pn)), fk)
            po = Node(c, f'po_{pn}', 'output')
            c.io_nodes.append(po)
            Line(c, fk, po)
        c.resolve_tlib_cells(lib)
        sim = LogicSim(c, sims=lanes, m=2)
        nb = sim.s.shape[-1]
        for k in range(n):
            v = sum(1 << lane for lane in range(lanes) if (lane >> k) & 1)
            sim.s[0, k, 0] = int_to_row(v, nb)
            sim.s[0, k, 1] = sim.s[0, k, 0]
        sim.s_to_c()
        sim.c_prop()
        sim.c_to_s()
        ctx.count('cells_function_checked')
        ctx.count('input_combinations', lanes)
        for lane in range(lanes):
            p = {pn: (lane >> k) & 1 for k, pn in enumerate(ins)}
            exp = f(p)
            for j, pn in enumerate(outs):
                got = (row_to_int(sim.s[1, n + j, 0]) >> lane) & 1
                if pn in exp and got != exp[pn]:
                    ctx.violation('datasheet-function', f'{libname}.{nm}: pin {pn} = {got} for inputs {p}, the {label} family function gives {exp[pn]}', case)
                    return
    ctx.sample({'lib': libname, 'cell': nm, 'family': label, 'inputs': ins, 'outputs': outs})


def run(spec, ctx):
    import kyupy.techlib as T
    srcs = lib_sources()
    libname = spec['lib']
    lib = getattr(T, libname)
    ctx.hit('libs', libname)
    defs = parse_defs(srcs[libname])
    if spec.get('pins_only'):
        # every library: names and pin tables
        for ln in LIBS:
            ctx.hit('libs', ln)
            l2 = getattr(T, ln)
            declared = set()
            for pattern, ins, outs, body in parse_defs(srcs[ln]):
                check_pins(ctx, ln, l2, pattern, ins, outs)
                declared.update(expand(pattern))
            extra = set(l2.cells) - declared
            if extra:
                ctx.violation('name-expansion', f'{ln}: library has cells {sorted(extra)[:5]} that the source text does not declare', {'lib': ln})
        return
    k = 0
    for pattern, ins, outs, body in defs:
        for nm in expand(pattern):
            k += 1
            if k % spec['parts'] != spec['part']:
                continue
            if nm in lib.cells and outs:
                check_function(ctx, libname, lib, nm, ins, outs)


def replay(case, ctx):
    import kyupy.techlib as T
    srcs = lib_sources()
    lib = getattr(T, case['lib'])
    for pattern, ins, outs, body in parse_defs(srcs[case['lib']]):
        if case.get('cell') in expand(pattern):
            check_pins(ctx, case['lib'], lib, pattern, ins, outs)
            if outs:
                check_function(ctx, case['lib'], lib, case['cell'], ins, outs)
