"""Hierarchical nets for C10/C11: own parse of the built-in library texts, own flattening of cell instances into the
primitive Net format of vk.gen_circuit (the BEFORE side of every transformation check), and construction of the
real kyupy Circuit holding the un-resolved cell instances (the input of the transformation under test)."""
import re

from . import gen_circuit as G
from .props.c19 import lib_sources, parse_defs, expand

LIBS = ['GSC180', 'NANGATE', 'NANGATE_ZN', 'SAED32', 'SAED90']
_cache = {}


def kind_to_fam(kind):
    """implementation statement kind (as written in the library text) -> (family for G.canonical, is_state)"""
    k = kind.upper()
    if k in ('DFF',):
        return 'DFF', True
    if k in ('LATCH',):
        return 'LATCH', True
    if k in ('__CONST0__',):
        return 'C0', False
    if k in ('__CONST1__',):
        return 'C1', False
    if k in ('BUF1', 'BUF'):
        return 'BUF', False
    if k in ('INV1', 'NOT1', 'INV', 'NOT'):
        return 'INV', False
    m = re.match(r'^(NAND|NOR|AND|OR|XNOR|XOR)(\d?)$', k)
    if m:
        return m.group(1), False
    if k in G.FIX_FAMS:
        return k, False
    raise KeyError(f'unknown implementation kind {kind}')


def lib_cells(libname):
    """-> {cell name: {'ins': [...], 'outs': [...], 'stmts': [(out, kind, [args])]}} from an own parse of the source text"""
    if libname in _cache:
        return _cache[libname]
    src = lib_sources()[libname]
    cells = {}
    for pattern, ins, outs, body in parse_defs(src):
        stmts = [(o, k, [a.strip() for a in args.split(',') if a.strip()]) for o, k, args in re.findall(r'(\w+)\s*=\s*(\w+)\s*\(([^)]*)\)', body)]
        for nm in expand(pattern):
            cells[nm] = {'ins': ins, 'outs': outs, 'stmts': stmts}
    _cache[libname] = cells
    return cells


def flatten_instance(inst, celldef, net):
    """append the primitive gates / state element of one cell instance to `net` (G.gen_circuit format).
    inst = {'name', 'cell', 'in': {pin: host sig | None}, 'out': {pin: True/False connected}}.
    The signal of output pin P of instance u is named 'u~P' at host level."""
    u = inst['name']
    local = {}
    zero = None
    for p in celldef['ins']:
        local[p] = inst['in'].get(p)
        if local[p] is None:                  # unconnected instance pin = constant 0 (an explicit operand, it does not change a gate's arity)
            if zero is None:
                zero = f'{u}~__zero'
                net['gates'].append({'name': zero, 'kind': '__const0__', 'fam': 'C0', 'ins': [], 'out': zero})
            local[p] = zero
    stmts = list(celldef['stmts'])
    # state elements first: their outputs are sources
    for o, k, args in stmts:
        fam, is_state = kind_to_fam(k)
        if is_state:
            local[o] = f'{u}~{o}'
    defined = set(p for p in celldef['ins'])
    defined |= {o for o, k, a in stmts if kind_to_fam(k)[1]}
    pending = [s for s in stmts if not kind_to_fam(s[1])[1]]
    ordered = []
    while pending:
        progress = False
        for s in list(pending):
            if all(a in defined for a in s[2]):
                ordered.append(s)
                defined.add(s[0])
                pending.remove(s)
                progress = True
        if not progress:
            raise ValueError(f'cyclic implementation in {inst["cell"]}')
    for o, k, args in ordered:
        fam, _ = kind_to_fam(k)
        sig = f'{u}~{o}'
        local[o] = sig
        ops = [local[a] for a in args]
        if fam in ('AND', 'NAND') and ops and zero is not None and ops[-1] == zero:
            # a trailing open pin of an AND-type gate: "reads 0" and "the pin does not exist" differ, and which one the
            # resolved circuit shows depends on whether the implementation input has one reader or several - not decided by the property
            net['ambiguous'] = True
        net['gates'].append({'name': sig, 'kind': k, 'fam': fam, 'ins': ops, 'out': sig})
    for o, k, args in stmts:
        fam, is_state = kind_to_fam(k)
        if is_state:
            d = local[args[0]] if args else None
            net['ffs'].append({'name': u, 'kind': fam, 'q': f'{u}~{o}', 'qn': None, 'd': d, 'ck': None})
    return {p: local.get(p) for p in celldef['outs']}


def build_host(hnet, libs, node_order=None):
    """hnet: {'inputs': [sig], 'items': [inst | prim gate], 'outputs': [{'name','sig'}]} -> (kyupy Circuit with un-resolved instances, flat Net)
    items in topological order; instance = {'name','lib','cell','in':{pin:sig|None},'out':{pin:bool}}; prim = G gate record."""
    from kyupy.circuit import Circuit, Node, Line
    import kyupy.techlib as T
    c = Circuit('host')
    flat = {'style': 'v', 'inputs': list(hnet['inputs']), 'ffs': [], 'gates': [], 'outputs': [dict(o) for o in hnet['outputs']], 'wiring': {}}
    forks = {}
    for s in hnet['inputs']:
        n = Node(c, s, 'input')
        c.io_nodes.append(n)
        f = Node(c, s)
        Line(c, n, f)
        forks[s] = f
    # node_order: permutation of item positions; instance/gate nodes are created in that order so that resolve_tlib_cells
    # (which walks the nodes by index) may meet a reader before its driver
    pre = {}
    for k in (node_order or []):
        it = hnet['items'][k]
        pre[it['name']] = Node(c, it['name'], it['cell'] if 'cell' in it else it['kind'])
    for it in hnet['items']:
        if 'cell' in it:
            lib = getattr(T, it['lib'])
            cd = lib_cells(it['lib'])[it['cell']]
            n = pre.get(it['name']) or Node(c, it['name'], it['cell'])
            for p, s in it['in'].items():
                if s is not None:
                    Line(c, forks[s], (n, lib.pin_index(it['cell'], p)))
            for p, conn in it['out'].items():
                if conn:
                    f = Node(c, f'{it["name"]}.{p}')      # not 'u~P': that name is what substitute() gives its own internal forks
                    Line(c, (n, lib.pin_index(it['cell'], p)), f)
                    forks[f'{it["name"]}~{p}'] = f
            flatten_instance(it, cd, flat)
            if any(kind_to_fam(k)[1] for _, k, _ in cd['stmts']) and 'dff' not in it['cell'].lower() and 'latch' not in it['cell'].lower():
                # a sequential cell whose *name* does not say so (DLH_X1, TLATX1, ...): before it is resolved the circuit does not
                # list it as a state element, so it may legitimately be pruned like any other dangling cell
                flat.setdefault('hidden_state', []).append(it['name'])
        else:
            n = pre.get(it['name']) or Node(c, it['name'], it['kind'])
            for p, s in enumerate(it['ins']):
                if s is not None:
                    Line(c, forks[s], (n, p))
            f = Node(c, it['out'])
            Line(c, n, f)
            forks[it['out']] = f
            flat['gates'].append(dict(it))
    for o in hnet['outputs']:
        n = Node(c, o['name'], 'output')
        c.io_nodes.append(n)
        Line(c, forks[o['sig']], n)
    flat['io_order'] = list(hnet['inputs']) + [o['name'] for o in hnet['outputs']]
    # keep the flat gate list topological: state outputs are sources, instance gates were appended in item order
    return c, flat
