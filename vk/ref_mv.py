"""Independent model of the documented 4-/8-valued algebra (DESIGN.md 2.2).

A value is an int 0..7 as documented in kyupy/logic.py's module docstring:
bit0 = final, bit1 = initial, bit2 = activity; 0b001 (UNKNOWN) and 0b010 (UNASSIGNED) are the two
"no binary value" codes.  The rules implemented here are the *documented* ones:
  - a controlling constant (plain 0 for AND, plain 1 for OR) dominates,
  - otherwise any unknown/unassigned operand makes the result unknown,
  - otherwise initial/final are the Boolean function of the operands' initial/final components
    and activity is the union of operand activity;  NOT complements initial/final, keeps activity.
Nothing here is derived from kyupy's code; the self check compares against the tables *printed*
in the repository's tests (its own documentation of the algebra).
"""

ZERO, UNKNOWN, UNASSIGNED, ONE, PPULSE, RISE, FALL, NPULSE = range(8)
CHARS = '0X-1PRFN'
X = UNKNOWN


def is_unk(v):
    return v == UNKNOWN or v == UNASSIGNED


def dec(v):
    """-> (init, final, act) for a known value"""
    return (v >> 1) & 1, v & 1, (v >> 2) & 1


def enc(i, f, a):
    return (a << 2) | (i << 1) | f


def canon(v):
    """X and '-' are one class in comparisons."""
    return UNKNOWN if v == UNASSIGNED else v


def v_not(a):
    if is_unk(a):
        return X
    i, f, act = dec(a)
    return enc(1 - i, 1 - f, act)


def v_and(*ops):
    if any(o == ZERO for o in ops):
        return ZERO
    if any(is_unk(o) for o in ops):
        return X
    i = f = 1
    act = 0
    for o in ops:
        oi, of, oa = dec(o)
        i &= oi
        f &= of
        act |= oa
    return enc(i, f, act)


def v_or(*ops):
    if any(o == ONE for o in ops):
        return ONE
    if any(is_unk(o) for o in ops):
        return X
    i = f = 0
    act = 0
    for o in ops:
        oi, of, oa = dec(o)
        i |= oi
        f |= of
        act |= oa
    return enc(i, f, act)


def v_xor(*ops):
    if any(is_unk(o) for o in ops):
        return X
    i = f = 0
    act = 0
    for o in ops:
        oi, of, oa = dec(o)
        i ^= oi
        f ^= of
        act |= oa
    return enc(i, f, act)


def v_buf(a):
    return a     # a raw copy may legitimately keep '-'; compared modulo canon()


# the 33 simulation primitives as documented compositions of the four operators
def _n(f):
    return lambda *o: v_not(f(*o))


PRIM = {
    'BUF1': v_buf, 'INV1': v_not,
    'AND2': v_and, 'AND3': v_and, 'AND4': v_and,
    'NAND2': _n(v_and), 'NAND3': _n(v_and), 'NAND4': _n(v_and),
    'OR2': v_or, 'OR3': v_or, 'OR4': v_or,
    'NOR2': _n(v_or), 'NOR3': _n(v_or), 'NOR4': _n(v_or),
    'XOR2': v_xor, 'XOR3': v_xor, 'XOR4': v_xor,
    'XNOR2': _n(v_xor), 'XNOR3': _n(v_xor), 'XNOR4': _n(v_xor),
    'AO21': lambda a, b, c: v_or(v_and(a, b), c),
    'OA21': lambda a, b, c: v_and(v_or(a, b), c),
    'AOI21': lambda a, b, c: v_not(v_or(v_and(a, b), c)),
    'OAI21': lambda a, b, c: v_not(v_and(v_or(a, b), c)),
    'AO22': lambda a, b, c, d: v_or(v_and(a, b), v_and(c, d)),
    'OA22': lambda a, b, c, d: v_and(v_or(a, b), v_or(c, d)),
    'AOI22': lambda a, b, c, d: v_not(v_or(v_and(a, b), v_and(c, d))),
    'OAI22': lambda a, b, c, d: v_not(v_and(v_or(a, b), v_or(c, d))),
    'AO211': lambda a, b, c, d: v_or(v_and(a, b), c, d),
    'OA211': lambda a, b, c, d: v_and(v_or(a, b), c, d),
    'AOI211': lambda a, b, c, d: v_not(v_or(v_and(a, b), c, d)),
    'OAI211': lambda a, b, c, d: v_not(v_and(v_or(a, b), c, d)),
    'MUX21': lambda a, b, s: v_or(v_and(a, v_not(s)), v_and(b, s)),
}


def restrict4(v):
    """4-valued view of a value: activity is not represented."""
    return v & 3


# ---- self check against the tables printed in tests/test_logic.py::test_mv_ops -----------------
_X1 = '00000000XXXXXXXX--------11111111PPPPPPPPRRRRRRRRFFFFFFFFNNNNNNNN'
_X2 = '0X-1PRFN' * 8
_PUBLISHED = {
    'not': '11111111XXXXXXXXXXXXXXXX00000000NNNNNNNNFFFFFFFFRRRRRRRRPPPPPPPP',
    'or': '0XX1PRFNXXX1XXXXXXX1XXXX11111111PXX1PRFNRXX1RRNNFXX1FNFNNXX1NNNN',
    'and': '000000000XXXXXXX0XXXXXXX0XX1PRFN0XXPPPPP0XXRPRPR0XXFPPFF0XXNPRFN',
    'xor': '0XX1PRFNXXXXXXXXXXXXXXXX1XX0NFRPPXXNPRFNRXXFRPNFFXXRFNPRNXXPNFRP',
}


def self_check():
    """Returns a list of disagreements between this model and the repository's published tables."""
    bad = []
    for k in range(64):
        a, b = CHARS.index(_X1[k]), CHARS.index(_X2[k])
        for name, f in (('not', lambda p, q: v_not(p)), ('or', v_or), ('and', v_and), ('xor', v_xor)):
            exp = CHARS.index(_PUBLISHED[name][k])
            got = f(a, b)
            if canon(got) != canon(exp):
                bad.append((name, _X1[k], _X2[k], CHARS[got], CHARS[exp]))
    return bad
