"""./check <ID> [--tier quick|thorough] [--seed N] [--replay FILE]"""
import argparse
import os
import sys


def main():
    ap = argparse.ArgumentParser()
    ap.add_argument('prop')
    ap.add_argument('--tier', default=os.environ.get('VERIF_TIER', 'quick'), choices=['quick', 'thorough'])
    ap.add_argument('--seed', type=int, default=int(os.environ.get('VERIF_SEED', '0') or 0))
    ap.add_argument('--replay')
    a = ap.parse_args()
    from . import runner
    try:
        rc = runner.run_check(a.prop.upper(), a.tier, a.seed, a.replay)
    except Exception:      # a failure of the machinery is never a verdict about kyupy
        import traceback
        traceback.print_exc()
        print(f'INCONCLUSIVE property={a.prop.upper()} reason=the check itself failed (see traceback)')
        rc = 2
    sys.exit(rc)


if __name__ == '__main__':
    main()
