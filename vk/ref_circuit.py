"""Executable sequential model of the documented Circuit semantics (DESIGN.md 2.2) and the structural
invariant walker inv_circuit (2.5).  Model: nodes/lines are appended, an implicit pin is the first free one,
deletion moves the last element into the hole, removing a line squeezes a fork's outputs and leaves a hole in
any other pin list."""


class MNode:
    def __init__(self, name, kind):
        self.name, self.kind = name, kind
        self.ins, self.outs = [], []


class MLine:
    def __init__(self, driver, dpin, reader, rpin):
        self.driver, self.dpin, self.reader, self.rpin = driver, dpin, reader, rpin


def _free(lst):
    for i, x in enumerate(lst):
        if x is None:
            return i
    return len(lst)


def _set(lst, i, v):
    while len(lst) <= i:
        lst.append(None)
    lst[i] = v


class Model:
    def __init__(self):
        self.nodes, self.lines, self.io = [], [], []

    def add_node(self, name, kind):
        n = MNode(name, kind)
        self.nodes.append(n)
        return n

    def add_line(self, d, r, dpin=None, rpin=None):
        dpin = _free(d.outs) if dpin is None else dpin
        rpin = _free(r.ins) if rpin is None else rpin
        l = MLine(d, dpin, r, rpin)
        _set(d.outs, dpin, l)
        _set(r.ins, rpin, l)
        self.lines.append(l)
        return l

    def remove_line(self, l):
        l.driver.outs[l.dpin] = None
        if l.driver.kind == '__fork__':
            del l.driver.outs[l.dpin]
            for i, x in enumerate(l.driver.outs):
                x.dpin = i
        l.reader.ins[l.rpin] = None
        i = self.lines.index(l)
        last = self.lines.pop()
        if last is not l:
            self.lines[i] = last

    def remove_node(self, n):
        i = self.nodes.index(n)
        last = self.nodes.pop()
        if last is not n:
            self.nodes[i] = last

    def snapshot(self):
        ni = {id(n): i for i, n in enumerate(self.nodes)}
        li = {id(l): i for i, l in enumerate(self.lines)}
        nodes = [(n.name, n.kind, [None if x is None else li[id(x)] for x in n.ins], [None if x is None else li[id(x)] for x in n.outs]) for n in self.nodes]
        lines = [(ni[id(l.driver)], l.dpin, ni[id(l.reader)], l.rpin) for l in self.lines]
        return nodes, lines, [ni[id(n)] for n in self.io]


def snapshot_real(c):
    nodes = [(n.name, n.kind, [None if x is None else x.index for x in n.ins], [None if x is None else x.index for x in n.outs]) for n in c.nodes]
    lines = [(l.driver.index, l.driver_pin, l.reader.index, l.reader_pin) for l in c.lines]
    return nodes, lines, [n.index for n in c.io_nodes]


def name_structure(c):
    """structure of a circuit up to renumbering: nodes by (name, is fork) with kind, connections by names and pins, port order by name, counts"""
    key = lambda n: (n.name, n.kind == '__fork__')
    nodes = {key(n): n.kind for n in c.nodes}
    conns = sorted((key(l.driver), l.driver_pin, key(l.reader), l.reader_pin) for l in c.lines)
    return nodes, conns, [key(n) for n in c.io_nodes], len(c.nodes), len(c.lines)


def model_from_real(c):
    m = Model()
    for n in c.nodes:
        m.add_node(n.name, n.kind)
    tmp = []
    for l in c.lines:
        ml = MLine(m.nodes[l.driver.index], l.driver_pin, m.nodes[l.reader.index], l.reader_pin)
        m.lines.append(ml)
    for n in c.nodes:
        mn = m.nodes[n.index]
        mn.ins = [None if x is None else m.lines[x.index] for x in n.ins]
        mn.outs = [None if x is None else m.lines[x.index] for x in n.outs]
    m.io = [m.nodes[n.index] for n in c.io_nodes]
    return m


def inv_circuit(c, transient=False):
    """-> list of violated structural invariants of a live kyupy Circuit.
    transient=True: called from inside a bulk construction (copy / unpickle fill a fork's outputs in line order, so gaps are legitimate until it returns)"""
    bad = []
    for i, n in enumerate(c.nodes):
        if n.index != i:
            bad.append(f'nodes[{i}].index == {n.index}')
        if n.circuit is not c:
            bad.append(f'node {i} ({n.name}) does not point back to its circuit')
        d = c.forks if n.kind == '__fork__' else c.cells
        if d.get(n.name) is not n:
            bad.append(f'{"fork" if n.kind == "__fork__" else "cell"} lookup of "{n.name}" does not return node {i}')
    if len(c.cells) + len(c.forks) != len(c.nodes):
        bad.append(f'{len(c.cells)} cells + {len(c.forks)} forks != {len(c.nodes)} nodes')
    for name, n in list(c.cells.items()) + list(c.forks.items()):
        if n.name != name or not (0 <= n.index < len(c.nodes)) or c.nodes[n.index] is not n:
            bad.append(f'name table entry "{name}" refers to a node that is not in the node list')
    refs = {}
    for i, l in enumerate(c.lines):
        if l.index != i:
            bad.append(f'lines[{i}].index == {l.index}')
        if l.circuit is not c:
            bad.append(f'line {i} does not point back to its circuit')
        for end, node, pin, lst in (('driver', l.driver, l.driver_pin, 'outs'), ('reader', l.reader, l.reader_pin, 'ins')):
            if node is None or not (0 <= node.index < len(c.nodes)) or c.nodes[node.index] is not node:
                bad.append(f'line {i}: its {end} is not a node of the circuit')
                continue
            pl = getattr(node, lst)
            if pin is None or pin >= len(pl) or pl[pin] is not l:
                bad.append(f'line {i}: {end} {node.index}.{lst}[{pin}] does not reference the line')
    live = {id(l) for l in c.lines}
    for n in c.nodes:
        for lst in ('ins', 'outs'):
            for pin, l in enumerate(getattr(n, lst)):
                if l is None:
                    continue
                if id(l) not in live:
                    bad.append(f'node {n.index} ({n.name}).{lst}[{pin}] references a line that is not in the circuit')
                    continue
                key = (id(l), lst)
                if key in refs:
                    bad.append(f'line {l.index} is referenced from two {lst} pins ({refs[key]} and {(n.index, pin)})')
                refs[key] = (n.index, pin)
                if (lst == 'ins' and (l.reader is not n or l.reader_pin != pin)) or (lst == 'outs' and (l.driver is not n or l.driver_pin != pin)):
                    bad.append(f'node {n.index}.{lst}[{pin}] holds line {l.index} which records another endpoint')
        if not transient and n.kind == '__fork__' and any(x is None for x in n.outs):
            bad.append(f'fork {n.index} ({n.name}) has a gap in its outputs: {[None if x is None else x.index for x in n.outs]}')
    for n in c.io_nodes:
        if n is not None and (not (0 <= n.index < len(c.nodes)) or c.nodes[n.index] is not n):
            bad.append(f'io node "{n.name}" is not a node of the circuit')
    st = c.stats
    exp = {'__node__': len(c.nodes), '__cell__': len(c.cells), '__fork__': len(c.forks), '__io__': len(c.io_nodes), '__line__': len(c.lines)}
    kinds = {}
    for n in c.nodes:
        if n.kind != '__fork__':
            kinds[n.kind] = kinds.get(n.kind, 0) + 1
    exp.update(kinds)
    exp['__dff__'] = sum(1 for n in c.nodes if n.kind != '__fork__' and 'dff' in n.kind.lower())
    exp['__latch__'] = sum(1 for n in c.nodes if n.kind != '__fork__' and 'dff' not in n.kind.lower() and 'latch' in n.kind.lower())
    exp['__seq__'] = exp['__dff__'] + exp['__latch__']
    exp['__comb__'] = sum(1 for n in c.nodes if n.kind != '__fork__' and 'dff' not in n.kind.lower() and 'latch' not in n.kind.lower() and 'put' not in n.kind.lower())
    for k, v in exp.items():
        if st.get(k, 0) != v:
            bad.append(f'stats[{k!r}] = {st.get(k, 0)} but the containers hold {v}')
    return bad
