"""Sharding, watchdog, aggregation, verdicts, evidence, replay and known-finding classification.

Verdicts are three-valued (DESIGN.md section 1):
  exit 0  held on everything explored (KNOWN-FINDING lines may have been printed)
  exit 1  at least one violation that known_findings.json does not list as open
  exit 2  inconclusive: a deciding monitor was not reached / observed too few events
"""
import collections
import concurrent.futures
import hashlib
import importlib
import json
import os
import subprocess
import sys
import tempfile
import time
import traceback

from . import VERIF_DIR, REPO

PY = sys.executable
MAX_WORKERS = int(os.environ.get('VERIF_WORKERS', '16'))
MAX_VIOLATIONS_KEPT = 40      # per shard
MAX_REPLAYS = 5


def digest(obj):
    return hashlib.sha1(json.dumps(obj, sort_keys=True, default=str).encode()).hexdigest()[:14]


class HarnessError(Exception):
    """Raised for failures of the checking machinery itself (never a verdict about kyupy)."""


def repo_frame(tb):
    """Innermost traceback frame that lies inside the repository under test, or None."""
    src = os.path.join(REPO, 'src') + os.sep
    found = None
    for fs in traceback.extract_tb(tb):
        if os.path.abspath(fs.filename).startswith(src):
            found = fs
    return found


class Ctx:
    """Worker-side recorder of what the monitors observed."""

    def __init__(self, prop, spec):
        self.prop = prop
        self.spec = spec
        self.cases = 0
        self.digests = set()
        self.counters = collections.Counter()
        self.sets = collections.defaultdict(set)
        self.violations = []
        self.nviol = 0
        self.samples = []
        self.notes = []

    # -- coverage ---------------------------------------------------------------------------
    def case(self, case, nontrivial, key=None):
        self.cases += 1
        if nontrivial:
            self.digests.add(digest(case if key is None else key))

    def count(self, name, n=1):
        self.counters[name] += int(n)

    def hit(self, setname, item):
        self.sets[setname].add(item if isinstance(item, str) else json.dumps(item, sort_keys=True, default=str))

    def sample(self, obj, limit=3):
        if len(self.samples) < limit:
            self.samples.append(obj)

    def note(self, s):
        if len(self.notes) < 20:
            self.notes.append(s)

    # -- verdicts ---------------------------------------------------------------------------
    def violation(self, monitor, msg, case, finding=None, sig=None):
        """Record a violation witness. `finding` is the mechanism key the property's classifier
        attributes it to (only honoured by the parent if known_findings.json lists it as open)."""
        self.nviol += 1
        self.counters['violations/' + monitor] += 1
        if len(self.violations) < MAX_VIOLATIONS_KEPT:
            self.violations.append({'monitor': monitor, 'msg': str(msg)[:2000], 'case': case,
                                    'finding': finding, 'sig': sig or monitor})

    def guard(self, monitor, case, classify=None):
        """Context manager: an exception raised *inside the repository under test* is a violation
        of `monitor`; an exception that never entered the repository is a harness error."""
        return _Guard(self, monitor, case, classify)


# class names of the harness's proxy objects that the repository's code gets to see
HARNESS_TYPE_NAMES = ('_CProxy', 'ShadowC', '_OpsProxy', '_Walk', 'MonHeap', 'OrderedLauncher')


class _Guard:
    def __init__(self, ctx, monitor, case, classify):
        self.ctx, self.monitor, self.case, self.classify = ctx, monitor, case, classify
        self.failed = False

    def __enter__(self):
        return self

    def __exit__(self, et, ev, tb):
        if et is None:
            return False
        if issubclass(et, (KeyboardInterrupt, SystemExit, HarnessError, MemoryError)):
            return False
        fr = repo_frame(tb)
        if fr is not None and any(nm in str(ev) for nm in HARNESS_TYPE_NAMES):
            fr = None      # the repository tripped over one of the harness's own stand-in objects (a monitor proxy lacks something): the harness failed
        if fr is None:
            raise HarnessError(f'harness failure in monitor {self.monitor}: {et.__name__}: {ev}\n' +
                               ''.join(traceback.format_tb(tb)[-4:])) from ev
        sig = f'{et.__name__}@{os.path.basename(fr.filename)}:{fr.name}'
        finding = self.classify(sig, ev) if self.classify else None
        self.ctx.violation(self.monitor, f'{et.__name__}: {ev} at {os.path.basename(fr.filename)}:{fr.lineno} in {fr.name}',
                           self.case, finding=finding, sig=sig)
        self.failed = True
        return True


# ------------------------------------------------------------------------------------------------

def load_prop(pid):
    return importlib.import_module(f'vk.props.{pid.lower()}')


def load_findings(pid):
    path = os.path.join(VERIF_DIR, 'known_findings.json')
    if not os.path.exists(path):
        return {}
    with open(path) as f:
        data = json.load(f)
    return {e['key']: e for e in data.get('findings', []) if e['property'] == pid}


def _run_worker(pid, spec, timeout):
    fd, out = tempfile.mkstemp(prefix=f'vk-{pid}-', suffix='.json', dir=os.environ.get('VERIF_TMP', None))
    os.close(fd)
    env = dict(os.environ)
    env['PYTHONDONTWRITEBYTECODE'] = '1'
    env.setdefault('PYTHONHASHSEED', '0')
    t0 = time.time()
    try:
        p = subprocess.run([PY, '-m', 'vk.worker', pid, json.dumps(spec), out], cwd=VERIF_DIR, env=env,
                           stdout=subprocess.PIPE, stderr=subprocess.STDOUT, timeout=timeout)
        rc, log = p.returncode, p.stdout.decode(errors='replace')
    except subprocess.TimeoutExpired as e:
        rc, log = -9, 'watchdog timeout\n' + (e.stdout.decode(errors='replace') if e.stdout else '')
    res = None
    try:
        if rc == 0 and os.path.getsize(out) > 0:
            with open(out) as f:
                res = json.load(f)
    finally:
        try:
            os.unlink(out)
        except OSError:
            pass
    return {'spec': spec, 'rc': rc, 'log': log[-3000:], 'res': res, 'wall': time.time() - t0}


def run_check(pid, tier, seed, replay=None):
    t0 = time.time()
    mod = load_prop(pid)
    if replay:
        with open(replay) as f:
            wit = json.load(f)
        specs = [{'replay': wit['case'], 'monitor': wit.get('monitor'), 'tier': tier, 'seed': seed, 'shard': 0}]
    else:
        specs = mod.plan(tier, seed)
        for i, s in enumerate(specs):
            s.setdefault('tier', tier)
            s.setdefault('seed', seed)
            s.setdefault('shard', i)
    timeout = getattr(mod, 'WATCHDOG_S', {}).get(tier, 1500 if tier == 'quick' else 7200)

    results = []
    with concurrent.futures.ThreadPoolExecutor(max_workers=MAX_WORKERS) as ex:
        for r in ex.map(lambda s: _run_worker(pid, s, timeout), specs):
            results.append(r)

    agg = {'cases': 0, 'digests': set(), 'counters': collections.Counter(), 'sets': collections.defaultdict(set),
           'violations': [], 'nviol': 0, 'samples': [], 'notes': [], 'reach': collections.defaultdict(set),
           'shards': len(specs), 'shards_lost': [], 'harness_errors': []}
    for r in results:
        res = r['res']
        if res is None:
            agg['shards_lost'].append({'shard': r['spec'].get('shard'), 'rc': r['rc'], 'log_tail': r['log'][-600:]})
            if 'HarnessError' in r['log'] or 'Traceback' in r['log']:
                agg['harness_errors'].append(r['log'][-1500:])
            continue
        agg['cases'] += res['cases']
        agg['digests'].update(res['digests'])
        agg['counters'].update(res['counters'])
        for k, v in res['sets'].items():
            agg['sets'][k].update(v)
        agg['violations'].extend(res['violations'])
        agg['nviol'] += res['nviol']
        for s in res['samples']:
            if len(agg['samples']) < 3:
                agg['samples'].append(s)
        agg['notes'].extend(res['notes'][:5])
        for k, v in res.get('reach', {}).items():
            agg['reach'][k].update(v)

    findings = load_findings(pid)
    open_keys = {k for k, e in findings.items() if e.get('status') == 'open'}
    known_seen = collections.OrderedDict()
    real = []
    for v in agg['violations']:
        if v.get('finding') and v['finding'] in open_keys:
            known_seen.setdefault(v['finding'], v)
        else:
            real.append(v)
    unattributed = agg['nviol'] - len(agg['violations'])   # violations beyond the per-shard cap

    lines = []
    for k, v in known_seen.items():
        lines.append(f'KNOWN-FINDING: property={pid} {k}: {findings[k].get("what", findings[k].get("mechanism", ""))} '
                     f'[witness: {v["msg"][:160]}]')
    replays = []
    seen_sig = set()
    os.makedirs(os.path.join(VERIF_DIR, 'replays'), exist_ok=True)
    for v in real:
        key = (v['monitor'], v['sig'])
        if key in seen_sig or len(replays) >= MAX_REPLAYS:
            continue
        seen_sig.add(key)
        path = os.path.join(VERIF_DIR, 'replays', f'{pid}-{digest([v["monitor"], v["case"]])}.json')
        with open(path, 'w') as f:
            json.dump({'property': pid, 'monitor': v['monitor'], 'msg': v['msg'], 'seed': seed, 'tier': tier,
                       'case': v['case']}, f, indent=1, default=str)
        replays.append(path)
        lines.append(f'VIOLATION property={pid} replay={path}')
        lines.append(f'  monitor={v["monitor"]}: {v["msg"][:400]}')

    inconclusive = []
    if not real:
        if agg['harness_errors']:
            inconclusive.append('harness error in a worker: ' + agg['harness_errors'][0][-400:].replace('\n', ' | '))
        if agg['cases'] == 0:
            inconclusive.append('no case was executed')
        if not replay:
            try:
                inconclusive.extend(mod.conclude(agg) or [])
            except Exception as e:  # a conclude() bug must not look like "held"
                inconclusive.append(f'conclude() failed: {e!r}')
    extra = [f'reach anchor {k.split("/", 1)[1]}: the source line it names was rewritten, only the behavioural counters decide reach' for k in sorted(agg['counters']) if k.startswith('reach_anchor_rewritten/')]
    if hasattr(mod, 'notes') and not replay:
        try:
            extra += list(mod.notes(agg) or [])
        except Exception as e:
            extra.append(f'notes() failed: {e!r}')
    for x in extra:
        lines.append('note: ' + x)
    agg['notes'] = extra + agg['notes']
    if unattributed and not real:
        lines.append(f'note: {unattributed} further violation events beyond the per-shard cap were all of the kinds listed above')

    wall = time.time() - t0
    verdict = 'violated' if real else ('inconclusive' if inconclusive else 'held')
    if not replay and not os.environ.get('VERIF_NO_EVIDENCE'):
        write_evidence(pid, mod, tier, seed, agg, wall, verdict, len(real) + (unattributed if real else 0),
                       list(known_seen), inconclusive)
    for l in lines:
        print(l)
    for r in inconclusive:
        print(f'INCONCLUSIVE property={pid} reason={r}')
    print(f'{pid} tier={tier} seed={seed} verdict={verdict} cases={agg["cases"]} distinct_nontrivial={len(agg["digests"])} '
          f'shards={agg["shards"]} lost={len(agg["shards_lost"])} wall={wall:.1f}s')
    for sl in agg['shards_lost'][:3]:
        print(f'  lost shard {sl["shard"]} rc={sl["rc"]}: {sl["log_tail"][-300:]!r}')
    return 1 if real else (2 if inconclusive else 0)


def write_evidence(pid, mod, tier, seed, agg, wall, verdict, nviol, known_seen, inconclusive):
    sets = {}
    for k, v in agg['sets'].items():
        sv = sorted(v)
        sets[k] = {'size': len(sv), 'items': sv if len(sv) <= 80 else sv[:40] + ['...']}
    cov = {
        'evaluations': agg['cases'],
        'distinct_nontrivial': len(agg['digests']),
        'rule': mod.RULE,
        'samples': agg['samples'] or ['(no sample recorded)'],
        'monitor_counters': dict(sorted(agg['counters'].items())),
        'monitor_sets': sets,
        'reach': {k: sorted(v) for k, v in sorted(agg['reach'].items())},
        'shards': agg['shards'],
        'shards_lost': agg['shards_lost'],
        'verdict': verdict,
        'inconclusive_reasons': inconclusive,
        'known_findings_observed': known_seen,
        'repo': REPO,
    }
    if getattr(mod, 'EXHAUSTIVE', False):
        cov['exhaustive'] = True
    if agg['notes']:
        cov['notes'] = agg['notes'][:10]
    ev = {'property_id': pid, 'tier': tier, 'seed': seed, 'level': getattr(mod, 'LEVEL', 'exploration'),
          'coverage': cov, 'assumptions': list(getattr(mod, 'ASSUMPTIONS', [])), 'wall_s': round(wall, 2),
          'violations': nviol}
    os.makedirs(os.path.join(VERIF_DIR, 'evidence'), exist_ok=True)
    path = os.path.join(VERIF_DIR, 'evidence', f'{pid}.json')
    tmp = path + '.tmp'
    with open(tmp, 'w') as f:
        json.dump(ev, f, indent=1, default=str)
    os.replace(tmp, path)
