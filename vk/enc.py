"""Harness-side (kyupy-independent) conversions between value codes, strings and bit-parallel planes."""
import numpy as np

CHARS = '0X-1PRFN'


def to_bp(mv, planes=3):
    """mv: uint8 array (..., n) of value codes -> (..., planes, ceil(n/8)); lane 8*b+j is bit j of byte b."""
    mv = np.asarray(mv, dtype=np.uint8)
    n = mv.shape[-1]
    nb = (n + 7) // 8
    out = np.zeros(mv.shape[:-1] + (planes, nb), dtype=np.uint8)
    for lane in range(n):
        b, j = divmod(lane, 8)
        for p in range(planes):
            out[..., p, b] |= (((mv[..., lane] >> p) & 1) << j).astype(np.uint8)
    return out


def from_bp(bp, n=None):
    """bp: (..., planes, nb) -> (..., n) value codes (missing planes read as 0)."""
    bp = np.asarray(bp, dtype=np.uint8)
    planes, nb = bp.shape[-2], bp.shape[-1]
    if n is None:
        n = nb * 8
    out = np.zeros(bp.shape[:-2] + (n,), dtype=np.uint8)
    for lane in range(n):
        b, j = divmod(lane, 8)
        for p in range(planes):
            out[..., lane] |= (((bp[..., p, b] >> j) & 1) << p).astype(np.uint8)
    return out


def s2v(s):
    return [CHARS.index(ch) for ch in s]


def v2s(vals):
    return ''.join(CHARS[int(v)] for v in vals)


def bits_to_int(bits):
    """list of 0/1 per lane -> python int bitset"""
    r = 0
    for i, b in enumerate(bits):
        if b:
            r |= 1 << i
    return r
