"""Harness-side (kyupy-independent) conversions between value codes, strings and bit-parallel planes."""
import numpy as np

CHARS = '0X-1PRFN'


def to_bp(mv, planes=3):
    """mv: uint8 array (..., n) of value codes -> (..., planes, ceil(n/8)); lane 8*b+j is bit j of byte b."""
    mv = np.asarray(mv, dtype=np.uint8)
    n = mv.shape[-1]
    nb = (n + 7) // 8
    pad = np.zeros(mv.shape[:-1] + (nb * 8,), dtype=np.uint8)
    pad[..., :n] = mv
    w = (1 << np.arange(8)).astype(np.uint16)
    out = np.zeros(mv.shape[:-1] + (planes, nb), dtype=np.uint8)
    for p in range(planes):
        bits = ((pad >> p) & 1).reshape(mv.shape[:-1] + (nb, 8)).astype(np.uint16)
        out[..., p, :] = (bits * w).sum(axis=-1).astype(np.uint8)
    return out


def from_bp(bp, n=None):
    """bp: (..., planes, nb) -> (..., n) value codes (missing planes read as 0)."""
    bp = np.asarray(bp, dtype=np.uint8)
    planes, nb = bp.shape[-2], bp.shape[-1]
    if n is None:
        n = nb * 8
    sh = np.arange(8, dtype=np.uint8)
    out = np.zeros(bp.shape[:-2] + (nb * 8,), dtype=np.uint8)
    for p in range(planes):
        bits = ((bp[..., p, :, None] >> sh) & 1).reshape(bp.shape[:-2] + (nb * 8,))
        out |= (bits << p).astype(np.uint8)
    return out[..., :n]


def s2v(s):
    return [CHARS.index(ch) for ch in s]


def v2s(vals):
    return ''.join(CHARS[int(v)] for v in vals)


def bits_to_int(bits):
    """list of 0/1 per lane -> python int bitset"""
    r = 0
    for i, b in enumerate(bits):
        if b:
            r |= 1 << i
    return r
