"""Structural invariant walkers (DESIGN.md 2.5): allocator, memory map.  Pure functions over live objects."""
import bisect

import numpy as np

from . import wave as W


# ------------------------------------------------------------------------------------------------
# allocator

def inv_heap(h):
    """-> list of violated invariants of a kyupy.sim.Heap instance (empty = consistent)"""
    bad = []
    starts = sorted(h.chunks)
    pos = 0
    for s in starts:
        if s != pos:
            bad.append(f'chunks do not tile the managed range: gap/overlap at {pos} (next chunk starts at {s})')
            break
        if h.chunks[s] <= 0:
            bad.append(f'chunk at {s} has size {h.chunks[s]}')
        pos = s + h.chunks[s]
    else:
        if pos != h.current_size:
            bad.append(f'chunks end at {pos} but current_size is {h.current_size}')
    rel = list(h.released)
    if rel != sorted(rel) or len(set(rel)) != len(rel):
        bad.append(f'released list is not strictly sorted: {rel}')
    for r in rel:
        if r not in h.chunks:
            bad.append(f'released entry {r} is not a chunk start')
    relset = set(rel)
    for s in starts:
        if s in relset:
            nxt = s + h.chunks[s]
            if nxt in relset:
                bad.append(f'adjacent free chunks at {s} and {nxt} were not coalesced')
            if nxt == h.current_size:
                bad.append(f'free chunk at {s} at the end of the managed range was not trimmed')
    return bad


class HeapMonitor:
    """Client-boundary monitor of one Heap: shadow set of live regions + inv_heap after every event."""

    def __init__(self, heap, report, track_states=None):
        self.h = heap
        self.report = report
        self.live = {}            # loc -> size
        self.live_starts = []     # sorted
        self.high = 0
        self.events = []          # ('a', size, loc) / ('f', loc)
        self.states = track_states
        self.stats = dict(allocs=0, frees=0, splits=0, exact_fits=0, appends=0, merges_one=0, merges_both=0, no_merge=0, tail_trims=0, tail_trims_cascade=0)

    def alloc(self, size):
        h = self.h
        before_chunks = len(h.chunks)
        before_size = h.current_size
        before_rel = len(h.released)
        loc = h.alloc_orig(size)
        self.events.append(('a', int(size), int(loc)))
        self.stats['allocs'] += 1
        if h.current_size > before_size:
            self.stats['appends'] += 1
        elif len(h.chunks) > before_chunks:
            self.stats['splits'] += 1
        elif len(h.released) < before_rel:
            self.stats['exact_fits'] += 1
        loc = int(loc)
        # overlap with a live region?
        i = bisect.bisect_right(self.live_starts, loc)
        if i > 0:
            p = self.live_starts[i - 1]
            if p + self.live[p] > loc:
                self.report('allocator-overlap', f'alloc({size}) returned {loc}, inside the live region [{p},{p + self.live[p]})')
        if i < len(self.live_starts) and self.live_starts[i] < loc + size:
            q = self.live_starts[i]
            self.report('allocator-overlap', f'alloc({size}) returned [{loc},{loc + size}), overlapping the live region starting at {q}')
        if h.chunks.get(loc) != size:
            self.report('allocator-state', f'alloc({size}) returned {loc} but the chunk table records size {h.chunks.get(loc)}')
        self.live[loc] = int(size)
        bisect.insort(self.live_starts, loc)
        self._after()
        return loc

    def free(self, loc):
        h = self.h
        loc = int(loc)
        if loc not in self.live:
            self.report('allocator-client', f'free({loc}) of a location that is not live (double free or never allocated)')
            # do not forward an invalid free: the allocator's behaviour is undefined for it
            self.events.append(('f!', loc))
            return
        nrel, size0 = len(h.released), h.current_size
        h.free_orig(loc)
        self.events.append(('f', loc))
        self.stats['frees'] += 1
        if h.current_size < size0:
            self.stats['tail_trims'] += 1
            if len(h.released) < nrel:
                self.stats['tail_trims_cascade'] += 1
        elif len(h.released) == nrel:
            self.stats['merges_one'] += 1
        elif len(h.released) < nrel:
            self.stats['merges_both'] += 1
        else:
            self.stats['no_merge'] += 1
        del self.live[loc]
        self.live_starts.remove(loc)
        self._after()

    def _after(self):
        h = self.h
        self.high = max(self.high, h.current_size)
        if h.max_size != self.high:
            self.report('allocator-highwater', f'max_size is {h.max_size} but the managed range reached {self.high}')
        for b in inv_heap(h):
            self.report('allocator-invariant', b)
        relset = set(h.released)
        used = {s: z for s, z in h.chunks.items() if s not in relset}
        if used != self.live:
            self.report('allocator-state', f'non-free chunks {sorted(used.items())[:6]} differ from the regions the client holds {sorted(self.live.items())[:6]}')
        if self.states is not None:
            self.states.add((tuple(sorted(h.chunks.items())), tuple(h.released)))


def monitored_heap_class(simmod, registry, report):
    """A subclass of the real sim.Heap whose instances are watched by a HeapMonitor (installed as simmod.Heap)."""
    Base = simmod.Heap

    class MonHeap(Base):
        def __init__(self):
            super().__init__()
            self.alloc_orig = super().alloc
            self.free_orig = super().free
            self.mon = HeapMonitor(self, report)
            registry.append(self.mon)

        def alloc(self, size):
            return self.mon.alloc(size)

        def free(self, loc):
            return self.mon.free(loc)

    MonHeap.__name__ = 'Heap'
    return MonHeap, Base


# ------------------------------------------------------------------------------------------------
# memory map

def inv_memmap(sim, circuit, strip_forks, c_reuse):
    """Checks of SimOps' published tables against lifetimes derived from the op list and the *netlist*.
    -> (list of violations, stats)"""
    bad = []
    stats = dict(owners=0, sharing_pairs=0, alias_lines=0, ppo_slots=0)
    ops = np.asarray(sim.ops)
    c_locs = np.asarray(sim.c_locs)
    c_caps = np.asarray(sim.c_caps)
    nlines = len(circuit.lines)
    zero, tmp, tmp2 = sim.zero_idx, sim.tmp_idx, sim.tmp2_idx
    order, deps = W.line_deps(circuit, strip_forks=strip_forks)
    resolve = lambda x: deps[x][1] if (x in deps and deps[x][0] == 'alias') else (zero if (x in deps and deps[x][0] == 'zero') else x)
    level_of_op = np.zeros(len(ops), dtype=np.int64)
    for lv, (a, b) in enumerate(zip(sim.level_starts, sim.level_stops)):
        level_of_op[a:b] = lv
    INF = 1 << 30
    birth, death = {}, {}
    for i, op in enumerate(ops):
        z = int(op[1])
        lv = int(level_of_op[i])
        if z != tmp:
            if z in birth:
                bad.append(f'line {z} is the output of two operations')
            birth[z] = lv
            death.setdefault(z, lv)
        for x in op[2:6]:
            x = int(x)
            if c_locs[x] < 0:
                bad.append(f'operation {i} reads c_locs index {x} which has no memory')
                continue
            o = resolve(x) if x < nlines else x
            death[o] = max(death.get(o, -1), lv)
    # pinned owners: special slots, input slots, captured lines
    pinned = {zero, tmp, tmp2}
    s_nodes = list(circuit.s_nodes)
    for i, n in enumerate(s_nodes):
        if c_locs[sim.ppi_offset + i] >= 0:
            pinned.add(sim.ppi_offset + i)
        if len(n.ins) > 0 and n.ins[0] is not None:
            li = n.ins[0].index
            o = resolve(li)
            pinned.add(o)
            stats['ppo_slots'] += 1
            if c_locs[sim.ppo_offset + i] != c_locs[li] or c_caps[sim.ppo_offset + i] != c_caps[li]:
                bad.append(f'output slot {i} ({n.name}) is at ({c_locs[sim.ppo_offset + i]},{c_caps[sim.ppo_offset + i]}) but the line it captures is at ({c_locs[li]},{c_caps[li]})')
    for p in pinned:
        birth.setdefault(p, -1)
        death[p] = INF
    # operands produced in an earlier level (C07 iii) - checked here because the lifetimes need it anyway
    for i, op in enumerate(ops):
        lv = int(level_of_op[i])
        for x in op[2:6]:
            x = int(x)
            o = resolve(x) if x < nlines else x
            if o == zero or o >= nlines:
                continue          # constant-0 slot and interface inputs are available before level 0
            if o not in birth:
                bad.append(f'operation {i} (level {lv}) reads line {x} (producer line {o}) that no operation produces')
            elif birth[o] >= lv:
                bad.append(f'operation {i} in level {lv} reads line {x} whose producer (line {o}) runs in level {birth[o]}')
    # aliases: a stripped branch has exactly the location and capacity of its stem
    for li, d in deps.items():
        if d[0] == 'zero':
            if c_locs[li] != c_locs[zero]:
                bad.append(f'branch line {li} of a stripped undriven fork is at {c_locs[li]}, not at the constant-0 slot {c_locs[zero]}')
        if d[0] == 'alias':
            stats['alias_lines'] += 1
            if c_locs[li] != c_locs[d[1]] or c_caps[li] != c_caps[d[1]]:
                bad.append(f'stripped branch line {li} is at ({c_locs[li]},{c_caps[li]}) but its stem line {d[1]} is at ({c_locs[d[1]]},{c_caps[d[1]]})')
    # regions of simultaneously live owners never overlap; everything stays inside c_len
    owners = sorted(birth)
    stats['owners'] = len(owners)
    regs = []
    for o in owners:
        loc, cap = int(c_locs[o]), int(c_caps[o])
        if loc < 0:
            bad.append(f'owner index {o} has no memory location')
            continue
        if cap <= 0:
            bad.append(f'owner index {o} has capacity {cap}')
        if loc + cap > sim.c_len:
            bad.append(f'region of index {o} [{loc},{loc + cap}) exceeds the reported total size {sim.c_len}')
        regs.append((loc, loc + cap, o))
    regs.sort()
    active = []
    for lo, hi, o in regs:
        active = [(l2, h2, o2) for (l2, h2, o2) in active if h2 > lo]
        for l2, h2, o2 in active:
            stats['sharing_pairs'] += 1
            if not c_reuse:
                bad.append(f'regions of indices {o2} [{l2},{h2}) and {o} [{lo},{hi}) overlap although memory reuse is off')
            elif not (death[o2] < birth[o] or death[o] < birth[o2]):
                bad.append(f'regions of indices {o2} [{l2},{h2}) (live levels {birth[o2]}..{death[o2]}) and {o} [{lo},{hi}) '
                           f'(live levels {birth[o]}..{death[o]}) overlap while both are live')
        active.append((lo, hi, o))
    return bad[:8], stats


def alloc_free_interleaving(events, sim):
    """C07 (iv): from the recorded allocator history of SimOps.__init__: no free happens between two allocations of
    one level (memory released in a level is never handed out again within that level)."""
    ops = np.asarray(sim.ops)
    n_special = 3 + sum(1 for i in range(sim.s_len) if sim.c_locs[sim.ppi_offset + i] >= 0)
    idx = 0
    # skip the special/input allocations
    k = 0
    while idx < len(events) and k < n_special:
        if events[idx][0] == 'a':
            k += 1
        idx += 1
    bad = []
    for lv, (a, b) in enumerate(zip(sim.level_starts, sim.level_stops)):
        need = sum(1 for op in ops[a:b] if int(op[1]) != sim.tmp_idx)
        got = 0
        while got < need and idx < len(events):
            e = events[idx]
            idx += 1
            if e[0] == 'a':
                got += 1
            else:
                if got < need:
                    bad.append(f'level {lv}: free({e[1]}) executed before the level\'s allocations were complete')
        # frees that follow belong to this level
        while idx < len(events) and events[idx][0] != 'a':
            idx += 1
    return bad[:4]
