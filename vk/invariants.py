"""Structural invariant walkers (DESIGN.md 2.5): allocator, memory map.  Pure functions over live objects."""
import bisect

import numpy as np

from . import wave as W


# ------------------------------------------------------------------------------------------------
# allocator

def inv_heap(h):
    """-> list of violated invariants of a kyupy.sim.Heap instance (empty = consistent)"""
    bad = []
    starts = sorted(h.chunks)
    pos = 0
    for s in starts:
        if s != pos:
            bad.append(f'chunks do not tile the managed range: gap/overlap at {pos} (next chunk starts at {s})')
            break
        if h.chunks[s] <= 0:
            bad.append(f'chunk at {s} has size {h.chunks[s]}')
        pos = s + h.chunks[s]
    else:
        if pos != h.current_size:
            bad.append(f'chunks end at {pos} but current_size is {h.current_size}')
    rel = list(h.released)
    if len(set(rel)) != len(rel):
        bad.append(f'released list holds a location twice: {rel}')
    for r in rel:
        if r not in h.chunks:
            bad.append(f'released entry {r} is not a chunk start')
    relset = set(rel)
    for s in starts:
        if s in relset:
            nxt = s + h.chunks[s]
            if nxt in relset:
                bad.append(f'adjacent free chunks at {s} and {nxt} were not coalesced')
            if nxt == h.current_size:
                bad.append(f'free chunk at {s} at the end of the managed range was not trimmed')
    return bad


class HeapMonitor:
    """Client-boundary monitor of one Heap.

    Boundary layer (needs nothing but alloc/free/max_size): shadow set of live regions; a returned region never overlaps a live one;
    max_size never under-reports the end of a region handed out; coalescing as a client can observe it - when a contiguous free gap
    of at least the requested size exists below the highest live region, the allocation does not extend beyond that region (two adjacent
    free regions that were not merged are exactly what makes such a request miss the gap).
    White-box layer (when the instance has the chunk table / free list / current_size of the pinned implementation): inv_heap after
    every event, chunk table vs. shadow, max_size == largest managed range so far.  If those attributes are not there the layer
    switches itself off and counts `whitebox_unavailable`; the boundary layer still decides."""

    def __init__(self, heap, report, track_states=None):
        self.h = heap
        self.report = report
        self.live = {}            # loc -> size
        self.live_starts = []     # sorted
        self.high = 0
        self.max_end = 0
        self.events = []          # ('a', size, loc) / ('f', loc)
        self.states = track_states
        self.whitebox = True
        self.live_sum = 0
        self.nev = 0
        self.stats = dict(allocs=0, frees=0, splits=0, exact_fits=0, appends=0, merges_one=0, merges_both=0, no_merge=0, tail_trims=0, tail_trims_cascade=0,
                          b_append=0, b_reuse_exact=0, b_reuse_split=0, b_free_merge0=0, b_free_merge1=0, b_free_merge2=0, b_free_top=0, b_free_top_cascade=0,
                          b_gap_rule_checks=0, whitebox_unavailable=0)

    def _wb(self, f, default=None):
        if not self.whitebox:
            return default
        try:
            return f()
        except (AttributeError, KeyError, TypeError):
            self.whitebox = False
            self.stats['whitebox_unavailable'] += 1
            return default

    # -- shadow geometry (all O(log n) except the explicit gap scan) --------------------------------
    def _top(self):
        if not self.live_starts:
            return 0
        st = self.live_starts[-1]
        return st + self.live[st]

    def _neighbours(self, loc, size):
        """(end of the live region below, start of the live region above or None) around [loc, loc+size)"""
        i = bisect.bisect_left(self.live_starts, loc)
        below = 0
        if i > 0:
            p = self.live_starts[i - 1]
            below = p + self.live[p]
        j = i
        if j < len(self.live_starts) and self.live_starts[j] == loc:
            j += 1
        above = self.live_starts[j] if j < len(self.live_starts) else None
        return below, above

    def _fitting_gap(self, size):
        pos = 0
        for st in self.live_starts:
            if st - pos >= size:
                return (pos, st)
            pos = max(pos, st + self.live[st])
        return None

    def _sampled(self):
        """large heaps (thousands of regions, e.g. the shipped b15 netlist): the O(n) walks run on every 128th event and at the end"""
        self.nev += 1
        return len(self.live) <= 1500 or self.nev % 128 == 0

    def alloc(self, size):
        h = self.h
        before = self._wb(lambda: (len(h.chunks), h.current_size, len(h.released)))
        top = self._top()
        loc = h.alloc_orig(size)
        self.events.append(('a', int(size), int(loc)))
        self.stats['allocs'] += 1
        after = self._wb(lambda: (len(h.chunks), h.current_size, len(h.released)))
        if before is not None and after is not None:
            if after[1] > before[1]:
                self.stats['appends'] += 1
            elif after[0] > before[0]:
                self.stats['splits'] += 1
            elif after[2] < before[2]:
                self.stats['exact_fits'] += 1
        loc = int(loc)
        size = int(size)
        # overlap with a live region?
        below, above = self._neighbours(loc, size)
        if below > loc:
            self.report('allocator-overlap', f'alloc({size}) returned {loc}, inside a live region that ends at {below}')
        if above is not None and above < loc + size:
            self.report('allocator-overlap', f'alloc({size}) returned [{loc},{loc + size}), overlapping the live region starting at {above}')
        if loc in self.live:
            self.report('allocator-overlap', f'alloc({size}) returned {loc}, the start of a live region')
        if loc < 0:
            self.report('allocator-overlap', f'alloc({size}) returned the negative location {loc}')
        # coalescing as the client sees it: the request extends the memory although a large enough contiguous free gap lies below
        sampled = self._sampled()
        if loc + size > top:
            if top - self.live_sum >= size and sampled:
                self.stats['b_gap_rule_checks'] += 1
                g = self._fitting_gap(size)
                if g is not None:
                    self.report('allocator-coalescing', f'alloc({size}) returned [{loc},{loc + size}) beyond the highest live region (ends at {top}) although the '
                                f'contiguous free gap [{g[0]},{g[1]}) below it is large enough: its parts were not merged')
        else:
            self.stats['b_gap_rule_checks'] += 1
        if loc >= top:
            self.stats['b_append'] += 1
        elif loc + size <= top and below <= loc and (above is None or above >= loc + size):
            gap_hi = above if above is not None else top
            self.stats['b_reuse_exact' if gap_hi - below == size else 'b_reuse_split'] += 1
        got = self._wb(lambda: h.chunks.get(loc))
        if self.whitebox and got != size:
            self.report('allocator-state', f'alloc({size}) returned {loc} but the chunk table records size {got}')
        self.live[loc] = size
        self.live_sum += size
        bisect.insort(self.live_starts, loc)
        self.max_end = max(self.max_end, loc + size)
        self._after(sampled)
        return loc

    def free(self, loc):
        h = self.h
        loc = int(loc)
        if loc not in self.live:
            self.report('allocator-client', f'free({loc}) of a location that is not live (double free or never allocated)')
            # do not forward an invalid free: the allocator's behaviour is undefined for it
            self.events.append(('f!', loc))
            return
        before = self._wb(lambda: (len(h.released), h.current_size))
        size = self.live[loc]
        below_end, above = self._neighbours(loc, size)
        gap_below = below_end < loc
        if above is None:
            self.stats['b_free_top'] += 1
            if gap_below:
                self.stats['b_free_top_cascade'] += 1
        else:
            self.stats[f'b_free_merge{int(gap_below) + int(above > loc + size)}'] += 1
        h.free_orig(loc)
        self.events.append(('f', loc))
        self.stats['frees'] += 1
        after = self._wb(lambda: (len(h.released), h.current_size))
        if before is not None and after is not None:
            nrel, size0 = before
            if after[1] < size0:
                self.stats['tail_trims'] += 1
                if after[0] < nrel:
                    self.stats['tail_trims_cascade'] += 1
            elif after[0] == nrel:
                self.stats['merges_one'] += 1
            elif after[0] < nrel:
                self.stats['merges_both'] += 1
            else:
                self.stats['no_merge'] += 1
        del self.live[loc]
        self.live_sum -= size
        self.live_starts.pop(bisect.bisect_left(self.live_starts, loc))
        self._after(self._sampled())

    def final_check(self):
        """the O(n) walks once more at a quiescent point (end of a history / of the SimOps constructor)"""
        self._after(True)

    def _after(self, full=True):
        h = self.h
        if h.max_size < self.max_end:
            self.report('allocator-highwater', f'max_size is {h.max_size} but a region ending at {self.max_end} was handed out')
        cur = self._wb(lambda: h.current_size)
        if cur is not None:
            self.high = max(self.high, cur)
            if h.max_size != self.high:
                self.report('allocator-highwater', f'max_size is {h.max_size} but the managed range reached {self.high}')
        if not full:
            return
        for b in self._wb(lambda: inv_heap(h), []):
            self.report('allocator-invariant', b)
        used = self._wb(lambda: {s: z for s, z in h.chunks.items() if s not in set(h.released)})
        if used is not None and used != self.live:
            self.report('allocator-state', f'non-free chunks {sorted(used.items())[:6]} differ from the regions the client holds {sorted(self.live.items())[:6]}')
        if self.states is not None:
            st = self._wb(lambda: (tuple(sorted(h.chunks.items())), tuple(h.released)))
            self.states.add(st if st is not None else (tuple(sorted(self.live.items())), int(h.max_size)))


def monitored_heap_class(simmod, registry, report):
    """A subclass of the real sim.Heap whose instances are watched by a HeapMonitor (installed as simmod.Heap)."""
    Base = simmod.Heap

    class MonHeap(Base):
        def __init__(self):
            super().__init__()
            self.alloc_orig = super().alloc
            self.free_orig = super().free
            self.mon = HeapMonitor(self, report)
            registry.append(self.mon)

        def alloc(self, size):
            return self.mon.alloc(size)

        def free(self, loc):
            return self.mon.free(loc)

    MonHeap.__name__ = 'Heap'
    return MonHeap, Base


# ------------------------------------------------------------------------------------------------
# memory map

def inv_memmap(sim, circuit, strip_forks, c_reuse):
    """Checks of SimOps' published tables against lifetimes derived from the op list and the *netlist*.
    -> (list of violations, stats)"""
    bad = []
    stats = dict(owners=0, sharing_pairs=0, alias_lines=0, ppo_slots=0)
    ops = np.asarray(sim.ops)
    c_locs = np.asarray(sim.c_locs)
    c_caps = np.asarray(sim.c_caps)
    nlines = len(circuit.lines)
    zero, tmp, tmp2 = sim.zero_idx, sim.tmp_idx, sim.tmp2_idx
    order, deps = W.line_deps(circuit, strip_forks=strip_forks)
    resolve = lambda x: deps[x][1] if (x in deps and deps[x][0] == 'alias') else (zero if (x in deps and deps[x][0] == 'zero') else x)
    level_of_op = np.zeros(len(ops), dtype=np.int64)
    for lv, (a, b) in enumerate(zip(sim.level_starts, sim.level_stops)):
        level_of_op[a:b] = lv
    INF = 1 << 30
    birth, death = {}, {}
    for i, op in enumerate(ops):
        z = int(op[1])
        lv = int(level_of_op[i])
        if z != tmp:
            if z in birth:
                bad.append(f'line {z} is the output of two operations')
            birth[z] = lv
            death.setdefault(z, lv)
        for x in op[2:6]:
            x = int(x)
            if c_locs[x] < 0:
                bad.append(f'operation {i} reads c_locs index {x} which has no memory')
                continue
            o = resolve(x) if x < nlines else x
            death[o] = max(death.get(o, -1), lv)
    # pinned owners: special slots, input slots, captured lines
    pinned = {zero, tmp, tmp2}
    s_nodes = list(circuit.s_nodes)
    for i, n in enumerate(s_nodes):
        if c_locs[sim.ppi_offset + i] >= 0:
            pinned.add(sim.ppi_offset + i)
        if len(n.ins) > 0 and n.ins[0] is not None:
            li = n.ins[0].index
            o = resolve(li)
            pinned.add(o)
            stats['ppo_slots'] += 1
            if c_locs[sim.ppo_offset + i] != c_locs[li] or c_caps[sim.ppo_offset + i] != c_caps[li]:
                bad.append(f'output slot {i} ({n.name}) is at ({c_locs[sim.ppo_offset + i]},{c_caps[sim.ppo_offset + i]}) but the line it captures is at ({c_locs[li]},{c_caps[li]})')
    for p in pinned:
        birth.setdefault(p, -1)
        death[p] = INF
    # operands produced in an earlier level (C07 iii) - checked here because the lifetimes need it anyway
    for i, op in enumerate(ops):
        lv = int(level_of_op[i])
        for x in op[2:6]:
            x = int(x)
            o = resolve(x) if x < nlines else x
            if o == zero or o >= nlines:
                continue          # constant-0 slot and interface inputs are available before level 0
            if o not in birth:
                bad.append(f'operation {i} (level {lv}) reads line {x} (producer line {o}) that no operation produces')
            elif birth[o] >= lv:
                bad.append(f'operation {i} in level {lv} reads line {x} whose producer (line {o}) runs in level {birth[o]}')
    # aliases: a stripped branch has exactly the location and capacity of its stem
    for li, d in deps.items():
        if d[0] == 'zero':
            if c_locs[li] != c_locs[zero]:
                bad.append(f'branch line {li} of a stripped undriven fork is at {c_locs[li]}, not at the constant-0 slot {c_locs[zero]}')
        if d[0] == 'alias':
            stats['alias_lines'] += 1
            if c_locs[li] != c_locs[d[1]] or c_caps[li] != c_caps[d[1]]:
                bad.append(f'stripped branch line {li} is at ({c_locs[li]},{c_caps[li]}) but its stem line {d[1]} is at ({c_locs[d[1]]},{c_caps[d[1]]})')
    # regions of simultaneously live owners never overlap; everything stays inside c_len
    owners = sorted(birth)
    stats['owners'] = len(owners)
    regs = []
    for o in owners:
        loc, cap = int(c_locs[o]), int(c_caps[o])
        if loc < 0:
            bad.append(f'owner index {o} has no memory location')
            continue
        if cap <= 0:
            bad.append(f'owner index {o} has capacity {cap}')
        if loc + cap > sim.c_len:
            bad.append(f'region of index {o} [{loc},{loc + cap}) exceeds the reported total size {sim.c_len}')
        regs.append((loc, loc + cap, o))
    regs.sort()
    active = []
    for lo, hi, o in regs:
        active = [(l2, h2, o2) for (l2, h2, o2) in active if h2 > lo]
        for l2, h2, o2 in active:
            stats['sharing_pairs'] += 1
            if not c_reuse:
                bad.append(f'regions of indices {o2} [{l2},{h2}) and {o} [{lo},{hi}) overlap although memory reuse is off')
            elif not (death[o2] < birth[o] or death[o] < birth[o2]):
                bad.append(f'regions of indices {o2} [{l2},{h2}) (live levels {birth[o2]}..{death[o2]}) and {o} [{lo},{hi}) '
                           f'(live levels {birth[o]}..{death[o]}) overlap while both are live')
        active.append((lo, hi, o))
    return bad[:8], stats


def alloc_free_interleaving(events, sim, stats=None):
    """C07 (iv): from the recorded allocator history of SimOps.__init__: memory released in a level is never handed out again
    within that level.  Allocation events are attributed to levels by the (location, capacity) the published map records for the
    output lines of that level's operations (so extra allocations, another order inside the level or lazily executed frees do not
    matter); a region freed after level L's first allocation and handed out again to an operation of level L is the violation."""
    import collections
    ops = np.asarray(sim.ops)
    expected = []
    for a, b in zip(sim.level_starts, sim.level_stops):
        expected.append(collections.Counter((int(sim.c_locs[int(op[1])]), int(sim.c_caps[int(op[1])])) for op in ops[a:b] if int(op[1]) != sim.tmp_idx))
    bad = []
    live = {}
    L = -1
    remaining = collections.Counter()
    freed = []
    matched = 0

    def next_nonempty(l):
        l += 1
        while l < len(expected) and not expected[l]:
            l += 1
        return l

    for e in events:
        if e[0] == 'a':
            size, loc = int(e[1]), int(e[2])
            live[loc] = size
            key = (loc, size)
            if remaining.get(key, 0) > 0:
                pass
            else:
                nl = next_nonempty(L)
                if not +remaining and nl < len(expected) and expected[nl].get(key, 0) > 0:
                    L, remaining, freed = nl, collections.Counter(expected[nl]), []
                else:
                    continue        # not the allocation of an output line of the current / next level (special slot, input slot, padding)
            remaining[key] -= 1
            matched += 1
            for (fl, fs) in freed:
                if fl < loc + size and loc < fl + fs:
                    bad.append(f'level {L}: the region [{fl},{fl + fs}) was released after the level\'s allocations began and handed out again as [{loc},{loc + size}) within the level')
        elif e[0] == 'f':
            loc = int(e[1])
            if loc in live:
                freed.append((loc, live.pop(loc)))
    if stats is not None:
        stats['interleaving_matched'] = stats.get('interleaving_matched', 0) + matched
        stats['interleaving_expected'] = stats.get('interleaving_expected', 0) + sum(sum(c.values()) for c in expected)
    return bad[:4]
