"""Worker process: runs one shard of one property's workload against the repository under test."""
import json
import os
import sys
import traceback


def main():
    pid, spec, out = sys.argv[1], json.loads(sys.argv[2]), sys.argv[3]
    from . import use_repo
    use_repo()
    from . import reach, runner
    import io, contextlib
    # kyupy prints a "Numba unavailable" warning at import time; keep worker output quiet
    with contextlib.redirect_stdout(io.StringIO()):
        import kyupy  # noqa: F401
    kyupy.log.logfile = open(os.devnull, 'w')
    mod = runner.load_prop(pid)
    ctx = runner.Ctx(pid, spec)
    reach.start()
    try:
        if 'replay' in spec:
            mod.replay(spec['replay'], ctx)
        else:
            mod.run(spec, ctx)
    except Exception as e:
        # an exception that escaped every per-case guard: if it was raised inside the repository under test
        # (e.g. while importing one of its modules) it is a violation witness, otherwise the harness failed
        fr = runner.repo_frame(e.__traceback__)
        if fr is None:
            raise
        ctx.violation('uncaught-exception-in-repository', f'{type(e).__name__}: {e} at {os.path.basename(fr.filename)}:{fr.lineno} in {fr.name}',
                      {'shard_spec': spec}, sig=f'{type(e).__name__}@{os.path.basename(fr.filename)}:{fr.name}')
    finally:
        reach.stop()
    anchors = getattr(mod, 'REACH', {})
    res = {'cases': ctx.cases, 'digests': sorted(ctx.digests), 'counters': dict(ctx.counters),
           'sets': {k: sorted(v) for k, v in ctx.sets.items()}, 'violations': ctx.violations, 'nviol': ctx.nviol,
           'samples': ctx.samples, 'notes': ctx.notes,
           'reach': {k: [str(x) for x in v] for k, v in reach.summary(anchors).items()}}
    req = getattr(mod, 'REACH_TEXT', {})
    for label, (relfile, text) in req.items():
        if reach.text_reached(relfile, text):
            res['counters']['reached/' + label] = res['counters'].get('reached/' + label, 0) + 1
        elif not reach.text_located(relfile, text):
            # the deciding line was rewritten: there is nothing to locate, so this reach requirement cannot be evaluated;
            # the behavioural counters of the check (which do not depend on source text) still have to be non-zero
            res['counters']['reached/' + label] = res['counters'].get('reached/' + label, 0) + 1
            res['counters']['reach_anchor_rewritten/' + label] = res['counters'].get('reach_anchor_rewritten/' + label, 0) + 1
    with open(out, 'w') as f:
        json.dump(res, f, default=str)


if __name__ == '__main__':
    try:
        main()
    except Exception:
        traceback.print_exc()
        sys.exit(3)
