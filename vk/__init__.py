"""vk - runtime-monitoring checks for the kyupy properties C01..C20 (see /verif/DESIGN.md)."""
import os
import sys

VERIF_DIR = os.path.dirname(os.path.dirname(os.path.abspath(__file__)))
REPO = os.environ.get('VERIF_REPO', '/repo')


def use_repo():
    """Put the working tree of the repository under test first on sys.path.

    'Rebuilding from the working tree' is an import for this pure-Python target; bytecode caching
    is switched off so a scratch copy never sees stale .pyc files.
    """
    sys.dont_write_bytecode = True
    src = os.path.join(REPO, 'src')
    if src in sys.path:
        sys.path.remove(src)
    sys.path.insert(0, src)
    return src
