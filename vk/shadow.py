"""Signal-memory sanitizer for the waveform simulators (DESIGN.md 2.3).

`Sanitizer(sim, circuit)` replaces `sim.c` by a recording proxy and wraps the instance's
s_to_c / c_prop / c_to_s plus the module-level kernels so that every access to the flat signal memory is
attributed to an *actor* (operation output line, lane) inside a *level* of an *epoch*.

Online checks (each failing check is reported through `report(kind, message)`):
  region     every row an actor touches lies in the region of its output or of one of its declared operands,
             rows are >= 0 and < c_len, the lane is the actor's own lane, writes go to the output region only
  ownership  a read of an operand region sees rows written in the current epoch, in an earlier level, by the
             producer the *netlist* prescribes for that operand (computed from the circuit graph, not from
             SimOps' own stems table); capture reads see the producer of the captured line
  race       inside one level two different actors never touch the same (row, lane) unless both only read
             (determinacy race detection: absence of conflicts in one execution of a barrier-synchronised
             level implies every interleaving of that level computes the same memory)
The scratch slot (output of cells without output line) and abuf are excluded.
"""
import numpy as np

# array attributes that hand out the underlying memory (accesses through them bypass the recording proxy)
ESCAPING = {'base', 'view', 'reshape', 'ravel', 'flat', 'T', 'data', 'ctypes', 'transpose', 'swapaxes', 'squeeze'}

from . import wave as W


class ShadowC:
    def __init__(self, arr, mon):
        self.a = arr
        self.mon = mon

    shape = property(lambda self: self.a.shape)
    nbytes = property(lambda self: self.a.nbytes)
    dtype = property(lambda self: self.a.dtype)
    ndim = property(lambda self: self.a.ndim)

    def __len__(self):
        return len(self.a)

    def __array__(self, *a, **k):
        return self.a

    def __getitem__(self, key):
        self.mon.on_read(key)
        return self.a[key]

    def __setitem__(self, key, v):
        self.mon.on_write(key)
        self.a[key] = v

    def __getattr__(self, name):
        # anything else of the array interface (base, view, reshape, ctypes, ...): handed through; memory reached that way is not observed,
        # so the monitor stops judging instead of working with stale ownership
        if name.startswith('__') and name.endswith('__'):
            raise AttributeError(name)
        val = getattr(self.a, name)
        if name in ESCAPING:
            self.mon.blind = True
            self.mon.stats['unattributed'] += 1
        return val


class Sanitizer:
    def __init__(self, sim, circuit, report, strip_forks):
        import kyupy.wave_sim as ws
        self.ws = ws
        self.sim = sim
        self.report = report
        self.c_locs = np.asarray(sim.c_locs).copy()
        self.c_caps = np.asarray(sim.c_caps).copy()
        self.c_len = sim.c_len
        self.nrows, self.nlanes = sim.c.shape
        self.zero_idx, self.tmp_idx = sim.zero_idx, sim.tmp_idx
        self.ppi_offset, self.ppo_offset = sim.ppi_offset, sim.ppo_offset
        self.owner = np.full((self.nrows, self.nlanes), -1, dtype=np.int64)
        self.wlevel = np.full((self.nrows, self.nlanes), -1, dtype=np.int64)
        self.wepoch = np.full((self.nrows, self.nlanes), -1, dtype=np.int64)
        self.epoch = 0
        self.phase = None
        self.level = -1
        self.actor = None            # (z_idx, (a,b,c,d), lane)
        self.cells = {}              # race detector state of the current level
        self.stats = dict(reads=0, writes=0, levels=0, actors=0, cells=0, capture_reads=0, assign_writes=0, max_level_width=0, unattributed=0)
        self.nviol = 0
        self.blind = False           # set when an access cannot be attributed (kernels restructured): the monitor then knows no writers and stops judging
        # expected producer of every c_locs index, from the netlist
        order, deps = W.line_deps(circuit, strip_forks=strip_forks)
        self.exp_writer = {}
        for li, d in deps.items():
            self.exp_writer[li] = d[1] if d[0] == 'alias' else (-1 if d[0] == 'zero' else li)
        s_nodes = list(circuit.s_nodes)
        self.ppo_expect = {}         # region start -> set of acceptable owners for capture reads
        for i, n in enumerate(s_nodes):
            loc = int(self.c_locs[self.ppo_offset + i])
            if loc < 0:
                continue
            if len(n.ins) > 0 and n.ins[0] is not None:
                w = self.exp_writer.get(n.ins[0].index, n.ins[0].index)
            else:
                w = -1               # constant-0 slot: never written
            self.ppo_expect.setdefault(loc, set()).add(w)
        self.ppi_slots = {}          # row -> ppi slot index
        for i in range(len(s_nodes)):
            loc = int(self.c_locs[self.ppi_offset + i])
            if loc >= 0:
                for r in range(loc, loc + int(self.c_caps[self.ppi_offset + i])):
                    self.ppi_slots[r] = self.ppi_offset + i
        self._idx = np.arange(self.nrows * self.nlanes, dtype=np.int64).reshape(self.nrows, self.nlanes)
        self.ppo_row = {}            # row -> (slot start, acceptable owners) for every row of every output slot
        for i in range(self.ppo_offset, len(self.c_locs)):
            loc = int(self.c_locs[i])
            if loc < 0 or loc not in self.ppo_expect:
                continue
            for r in range(loc, loc + int(self.c_caps[i])):
                ent = self.ppo_row.setdefault(r, (loc, set()))
                ent[1].update(self.ppo_expect[loc])
        self.tmp_rows = set(range(int(self.c_locs[self.tmp_idx]), int(self.c_locs[self.tmp_idx]) + int(self.c_caps[self.tmp_idx])))
        self._install()

    # -- installation -----------------------------------------------------------------------------
    def _install(self):
        sim, ws = self.sim, self.ws
        sim.c = ShadowC(sim.c, self)
        self._orig = {}
        for name in ('s_to_c', 'c_prop', 'c_to_s'):
            orig = getattr(sim, name)
            self._orig[name] = orig

            def wrapped(*a, _orig=orig, _name=name, **k):
                self.phase = {'s_to_c': 'assign', 'c_prop': 'prop', 'c_to_s': 'capture'}[_name]
                if _name == 's_to_c':
                    self.epoch += 1
                if _name == 'c_prop':
                    self.level = -1
                try:
                    return _orig(*a, **k)
                finally:
                    self.phase = None
            setattr(sim, name, wrapped)
        install_kernel_hooks(ws)

    def uninstall(self):
        for name in ('s_to_c', 'c_prop', 'c_to_s'):
            try:
                delattr(self.sim, name)
            except AttributeError:
                pass
        if isinstance(self.sim.c, ShadowC):
            self.sim.c = self.sim.c.a

    # -- events ----------------------------------------------------------------------------------
    def viol(self, kind, msg):
        self.nviol += 1
        if self.nviol <= 5:
            self.report(kind, msg)

    def level_begin(self, op_start, op_stop):
        self.level += 1 if self.phase == 'prop' else 0
        self.cells = {}
        self.stats['levels'] += 1
        self.stats['max_level_width'] = max(self.stats['max_level_width'], int(op_stop) - int(op_start))

    def level_end(self):
        self.stats['cells'] += len(self.cells)
        self.cells = {}

    def enter(self, op, lane):
        self.actor = (int(op[1]), (int(op[2]), int(op[3]), int(op[4]), int(op[5])), int(lane))
        self.stats['actors'] += 1

    def leave(self):
        self.actor = None

    def _region(self, idx):
        loc = int(self.c_locs[idx])
        return loc, loc + int(self.c_caps[idx])

    def on_read(self, key):
        if self.blind:
            return
        if self.phase == 'prop':
            self._prop_access(key, False)
        elif self.phase == 'capture':
            self._capture_read(key)
        # reads outside the three phases come from the harness itself

    def on_write(self, key):
        if self.blind:
            return
        if self.phase == 'prop':
            self._prop_access(key, True)
        elif self.phase == 'assign' or self.phase is None:
            # phase None: the harness itself writes a multi-transition stimulus into an input slot
            self._assign_write(key)
        elif self.phase == 'capture':
            self.viol('region', f'capture wrote to signal memory at {key!r}')

    def _cells(self, key):
        """(rows, lanes) touched by a numpy index expression on the signal memory; None if it cannot be worked out"""
        try:
            if isinstance(key, tuple) and len(key) == 2 and isinstance(key[0], (int, np.integer)) and isinstance(key[1], (int, np.integer)):
                r, l = int(key[0]), int(key[1])
                if r < 0 or r >= self.nrows or l < 0 or l >= self.nlanes:
                    return [r], [l]
                return [r], [l]
            cells = np.asarray(self._idx[key]).ravel()
            return (cells // self.nlanes).tolist(), (cells % self.nlanes).tolist()
        except Exception:
            self.stats['unattributed'] += 1
            self.blind = True
            return None

    def _assign_write(self, key):
        cl = self._cells(key)
        if cl is None:
            return
        for r, lane in zip(*cl):
            self.stats['assign_writes'] += 1
            if r < 0 or r >= self.nrows:
                self.viol('region', f'assign wrote row {r} outside the memory of {self.nrows} rows')
                continue
            slot = self.ppi_slots.get(r)
            if slot is None:
                self.viol('region', f'assign wrote row {r}, which is not inside any input slot')
                continue
            self.owner[r, lane] = slot
            self.wlevel[r, lane] = -1
            self.wepoch[r, lane] = self.epoch

    def _prop_access(self, key, is_write):
        if self.actor is None:
            # the evaluation kernels are no longer entered through the hooked names (the repository was restructured):
            # the access cannot be attributed, which makes the sanitizer inconclusive - it is not a violation of the property
            self.stats['unattributed'] += 1
            self.blind = True
            return
        cl = self._cells(key)
        if cl is None:
            return
        for row, ln in zip(*cl):
            self._prop_cell(row, ln, is_write)

    def _prop_cell(self, row, ln, is_write):
        z, opnds, lane = self.actor
        self.stats['writes' if is_write else 'reads'] += 1
        if ln != lane:
            self.viol('region', f'actor (line {z}, lane {lane}) touched lane {ln}')
            return
        if row < 0 or row >= self.nrows or row >= self.c_len:
            self.viol('region', f'actor (line {z}, lane {lane}) touched row {row} outside [0, {self.c_len})')
            return
        zlo, zhi = self._region(z)
        in_z = zlo <= row < zhi
        scratch = (z == self.tmp_idx)
        if is_write:
            if not in_z:
                self.viol('region', f'actor (line {z}, lane {lane}) wrote row {row} outside its output region [{zlo},{zhi})')
                return
            if not scratch:
                self.owner[row, lane] = z
                self.wlevel[row, lane] = self.level
                self.wepoch[row, lane] = self.epoch
        else:
            ok_region = in_z
            ok_owner = in_z and (scratch or (self.owner[row, lane] == z and self.wlevel[row, lane] == self.level and self.wepoch[row, lane] == self.epoch))
            why = ''
            if not ok_owner:
                for x in opnds:
                    lo, hi = self._region(x)
                    if not (lo <= row < hi):
                        continue
                    ok_region = True
                    if x == self.zero_idx:
                        if self.owner[row, lane] == -1:
                            ok_owner = True
                            break
                        why = f'constant-0 slot row {row} was written by line {self.owner[row, lane]}'
                        continue
                    want = self.exp_writer.get(x, x)
                    if want == -1:            # a stripped floating fork: the operand is the never-written constant-0 slot
                        if self.owner[row, lane] == -1:
                            ok_owner = True
                            break
                        why = f'operand line {x} aliases the constant-0 slot, but row {row} was written by line {self.owner[row, lane]}'
                        continue
                    if self.owner[row, lane] == want and self.wepoch[row, lane] == self.epoch and self.wlevel[row, lane] < self.level:
                        ok_owner = True
                        break
                    why = (f'operand line {x} (producer: line {want}) row {row}: last written by line {self.owner[row, lane]} in level '
                           f'{self.wlevel[row, lane]} of epoch {self.wepoch[row, lane]}; reader line {z} runs in level {self.level} of epoch {self.epoch}')
            if not ok_region:
                self.viol('region', f'actor (line {z}, lane {lane}) read row {row}, outside its output region and all operand regions {opnds}')
                return
            if not ok_owner:
                self.viol('ownership', why or f'actor (line {z}, lane {lane}) read row {row} of its own region before writing it')
                return
        # determinacy race detection inside the level
        if scratch and in_z:
            return
        cell = (row, lane)
        st = self.cells.get(cell)
        me = (z, lane)
        if st is None:
            self.cells[cell] = [me if is_write else None, None if is_write else {me}]
            return
        w, rd = st
        if is_write:
            if (w is not None and w != me) or (rd and (rd - {me})):
                other = w if (w is not None and w != me) else next(iter(rd - {me}))
                self.viol('race', f'level {self.level}: actor (line {z}, lane {lane}) writes row {row} that actor (line {other[0]}, lane {other[1]}) '
                          f'{"writes" if other == w else "reads"} in the same level')
            st[0] = me
        else:
            if w is not None and w != me:
                self.viol('race', f'level {self.level}: actor (line {z}, lane {lane}) reads row {row} that actor (line {w[0]}, lane {w[1]}) writes in the same level')
            if rd is None:
                st[1] = {me}
            else:
                rd.add(me)

    def _capture_read(self, key):
        a = self.sim.c.a if isinstance(self.sim.c, ShadowC) else np.asarray(self.sim.c)
        cl = self._cells(key)
        if cl is None:
            return
        for r, lane in zip(*cl):
            ent = self.ppo_row.get(r)
            if ent is None:
                self.viol('region', f'capture read row {r} which is not inside any output slot')
                return
            loc, accept = ent
            if r > loc and (a[loc:r, lane] >= W.TMAX).any():
                continue          # behind the waveform's terminator: the content is not part of the waveform
            self._capture_row(a, r, lane, accept)

    def _capture_row(self, a, r, lane, accept):
        self.stats['capture_reads'] += 1
        if r < 0 or r >= self.nrows:
            self.viol('region', f'capture read row {r} outside the memory')
            return
        o = int(self.owner[r, lane])
        if o == -1 and -1 in accept:
            return
        if o not in accept or self.wepoch[r, lane] != self.epoch:
            self.viol('ownership', f'capture read row {r} lane {lane}: last written by line {o} in epoch {self.wepoch[r, lane]}, '
                      f'expected the producer of the captured line ({sorted(accept)}) in epoch {self.epoch}')


# ------------------------------------------------------------------------------------------------
# module-level kernel hooks (installed once per process; no-ops for simulators without a ShadowC)

_installed = False
THREAD_ORDER = {'mode': 'default', 'rng': None, 'orders_run': 0}


def _mon(cbuf):
    return cbuf.mon if isinstance(cbuf, ShadowC) else None


def install_kernel_hooks(ws):
    global _installed
    if _installed:
        return
    _installed = True
    import kyupy
    orig_cpu = ws.wave_eval_cpu
    orig_gpu = ws._wave_eval_gpu
    orig_level = ws.level_eval_cpu

    def eval_cpu(op, cbuf, c_locs, c_caps, sim, *a, **k):
        m = _mon(cbuf)
        if m is None:
            return orig_cpu(op, cbuf, c_locs, c_caps, sim, *a, **k)
        m.enter(op, sim)
        try:
            return orig_cpu(op, cbuf, c_locs, c_caps, sim, *a, **k)
        finally:
            m.leave()

    def eval_gpu(op, cbuf, c_locs, c_caps, sim, *a, **k):
        m = _mon(cbuf)
        if m is None:
            return orig_gpu(op, cbuf, c_locs, c_caps, sim, *a, **k)
        m.enter(op, sim)
        try:
            return orig_gpu(op, cbuf, c_locs, c_caps, sim, *a, **k)
        finally:
            m.leave()

    def level_cpu(ops, op_start, op_stop, c, *a, **k):
        m = _mon(c)
        if m is None:
            return orig_level(ops, op_start, op_stop, c, *a, **k)
        m.level_begin(op_start, op_stop)
        try:
            return orig_level(ops, op_start, op_stop, c, *a, **k)
        finally:
            m.level_end()

    ws.wave_eval_cpu = eval_cpu
    ws._wave_eval_gpu = eval_gpu
    ws.level_eval_cpu = level_cpu

    # the mock-GPU launchers: same thread set as MockCuda, configurable order
    cuda = kyupy.cuda
    for kname in ('wave_eval_gpu', 'wave_assign_gpu', 'wave_capture_gpu', 'ppo_to_ppi_gpu'):
        launcher = getattr(ws, kname)
        setattr(ws, kname, OrderedLauncher(launcher, cuda, kname))


class OrderedLauncher:
    def __init__(self, launcher, cuda, name):
        self.launcher = launcher
        self.func = launcher.func
        self.cuda = cuda
        self.name = name

    def __call__(self, *a, **k):
        return self.func(*a, **k)

    def __getitem__(self, item):
        grid_dim, block_dim = item
        nx, ny = grid_dim[0] * block_dim[0], grid_dim[1] * block_dim[1]

        def inner(*args, **kwargs):
            mode = THREAD_ORDER['mode']
            m = None
            if self.name == 'wave_eval_gpu':
                m = _mon(args[3])
                if m is not None:
                    m.level_begin(args[1], args[2])
            if mode == 'default':
                threads = ((x, y) for gx in range(grid_dim[0]) for gy in range(grid_dim[1])
                           for bx in range(block_dim[0]) for by in range(block_dim[1])
                           for x, y in [(gx * block_dim[0] + bx, gy * block_dim[1] + by)])
            else:
                # only threads that can do anything are enumerated in the permuted modes; the rest return at once
                live_x, live_y = self._live(args, nx, ny)
                th = [(x, y) for x in range(live_x) for y in range(live_y)]
                if mode == 'reversed':
                    th.reverse()
                elif mode == 'column':
                    th = [(x, y) for y in range(live_y) for x in range(live_x)]
                elif mode == 'random':
                    THREAD_ORDER['rng'].shuffle(th)
                threads = th
                THREAD_ORDER['orders_run'] += 1
            try:
                for x, y in threads:
                    self.cuda.x, self.cuda.y = x, y
                    self.func(*args, **kwargs)
            finally:
                if m is not None:
                    m.level_end()
        return inner

    def _live(self, args, nx, ny):
        if self.name == 'wave_eval_gpu':
            return min(nx, int(args[8]) - int(args[7])), min(ny, int(args[2]) - int(args[1]))
        if self.name == 'wave_assign_gpu':
            return min(nx, args[0].shape[-1]), min(ny, args[1].shape[1])
        if self.name == 'wave_capture_gpu':
            return min(nx, args[0].shape[-1]), min(ny, args[1].shape[1])
        return min(nx, args[0].shape[2]), min(ny, args[0].shape[1])
