import random, numpy as np, time, sys
from gen import *
from kyupy.wave_sim import WaveSim, WaveSimCuda, TMAX, TMIN, TMAX_OVL
from kyupy.logic_sim import LogicSim
from kyupy import logic
seed = int(sys.argv[1]) if len(sys.argv)>1 else 0
rng = random.Random(seed); nrng = np.random.default_rng(seed)
def wf_of(w, l, lane):
    wf = w.c[w.c_locs[l]:w.c_locs[l]+w.c_caps[l], lane]
    k = int(np.argmax(wf >= TMAX)); return wf[:k], wf[k]
def run(c, delays, sims, cap, s0, s1, s2, cls=WaveSim, **kw):
    w = cls(c, delays, sims=sims, c_caps=cap, **kw)
    w.s[0]=s0; w.s[1]=s1; w.s[2]=s2
    w.s_to_c(); w.c_prop(); w.c_to_s(); return w
t0=time.time(); viol={'mono':0,'shift':0,'scale':0,'sta':0,'cuda':0,'reuse':0,'strip':0}; cases=0
for it in range(100):
    c = gen(rng, n_in=rng.randint(1,5), n_gates=rng.randint(1,25), n_ff=rng.randint(0,3), n_out=rng.randint(1,4))
    sims = rng.randint(1,9)
    polind = rng.random() < .5
    if polind:
        d = nrng.integers(0, 16, size=(1, len(c.lines), 1, 1)).astype(np.float32) / 4
        delays = np.broadcast_to(d, (1,len(c.lines),2,2)).copy()
    else:
        delays = nrng.integers(0, 16, size=(1, len(c.lines), 2, 2)).astype(np.float32) / 4
    cap = rng.choice([8,16,32])
    S = len(c.s_nodes)
    s0 = nrng.integers(0,2,(S,sims)); s2 = nrng.integers(0,2,(S,sims)); s1 = nrng.integers(0,64,(S,sims))/4
    w = run(c, delays, sims, cap, s0, s1, s2)
    w2 = run(c, delays, sims, cap, s0, s1+8.0, s2)
    w3 = run(c, delays*4, sims, cap, s0, s1*4, s2)
    wc = run(c, delays, sims, cap, s0, s1, s2, cls=WaveSimCuda)
    wr = run(c, delays, sims, cap, s0, s1, s2, c_reuse=True)
    dz = delays.copy()
    for f in c.forks.values():
        if f.ins and f.ins[0] is not None: dz[:, f.ins[0].index] = 0
    wz = run(c, dz, sims, cap, s0, s1, s2)
    ws = run(c, dz, sims, cap, s0, s1, s2, strip_forks=True)
    if not np.array_equal(w.s[3:], np.asarray(wc.s)[3:]): viol['cuda']+=1
    if not np.array_equal(w.s[3:], wr.s[3:]): viol['reuse']+=1
    if not np.array_equal(wz.s[3:], ws.s[3:]): viol['strip']+=1; 
    # STA: earliest/latest arrival per line
    for lane in range(sims):
        for l in c.lines:
            a, term = wf_of(w, l, lane); b,_ = wf_of(w2, l, lane); cc,_ = wf_of(w3, l, lane)
            cases += 1
            fa = a[a > TMIN]; fb = b[b > TMIN]; fc = cc[cc>TMIN]
            if polind and term != TMAX_OVL and np.any(np.diff(fa) <= 0): viol['mono']+=1; print('MONO', it, lane, l.index, a)
            if len(fa)!=len(fb) or np.any(fa+8 != fb): viol['shift']+=1
            if len(fa)!=len(fc) or np.any(fa*4 != fc): viol['scale']+=1
print('seed', seed, 'cases', cases, viol, 'time', time.time()-t0)
