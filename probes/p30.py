from kyupy import bench
c = bench.parse('input(a) output(z) x=buf(a) q1=dff(x) z=and(q1,q2) q2=dff(q1)')
print([n.name+':'+n.kind for n in c.nodes])
print('before', [n.name for n in c.s_nodes])
c.eliminate_1to1_forks()
print([n.name+':'+n.kind for n in c.nodes])
print('after ', [n.name for n in c.s_nodes])
