import random, numpy as np, sys, collections, time
from gen import *
seed=int(sys.argv[1]); rng=random.Random(seed); viol=collections.Counter(); cnt=0
def is_seq(n): k=n.kind.lower(); return 'dff' in k or 'latch' in k
for it in range(300):
    c = gen(rng, n_in=rng.randint(1,5), n_gates=rng.randint(1,30), n_ff=rng.randint(0,4), n_out=rng.randint(1,4))
    nodes = list(c.nodes)
    order = list(c.topological_order()); pos = {n.index:i for i,n in enumerate(order)}
    if sorted(pos) != list(range(len(nodes))) or len(order)!=len(nodes): viol['topo not perm']+=1
    for l in c.lines:
        if not is_seq(l.reader) and pos[l.driver.index] > pos[l.reader.index]: viol['topo order']+=1
    # sources first?
    srcs = [n for n in nodes if len(n.ins)==0 or is_seq(n)]
    if set(x.index for x in order[:len(srcs)]) != set(x.index for x in srcs): viol['sources not first']+=1
    # levels
    lv = {}
    for n in order:
        if len(n.ins)==0 or is_seq(n): lv[n.index]=0
        else: lv[n.index] = 1+max(lv[l.driver.index] for l in n.ins if l is not None)
    got = {n.index:l for n,l in c.topological_order_with_level()}
    if got != lv: viol['level']+=1
    lo = [l.index for l in c.topological_line_order()]
    if sorted(lo) != list(range(len(c.lines))): viol['line order perm']+=1
    rorder = list(c.reversed_topological_order()); rpos = {n.index:i for i,n in enumerate(rorder)}
    if sorted(rpos) != list(range(len(nodes))) or len(rorder)!=len(nodes): viol['rev not perm']+=1
    else:
        for l in c.lines:
            if not is_seq(l.driver) and rpos[l.reader.index] > rpos[l.driver.index]: viol['rev order']+=1
        sinks = [n for n in nodes if len(n.outs)==0 or is_seq(n)]
        if set(x.index for x in rorder[:len(sinks)]) != set(x.index for x in sinks): viol['sinks not first']+=1
    # fanin
    origins = rng.sample(nodes, rng.randint(1,3))
    oset = set(o.index for o in origins)
    # MUST: path to origin where no node other than origin is seq ; MAY: any path
    preds = collections.defaultdict(list)
    for l in c.lines: preds[l.reader.index].append(l.driver.index)
    byidx = {n.index:n for n in nodes}
    must=set(oset); stack=list(oset)
    while stack:
        x=stack.pop()
        for p in preds[x]:
            if p not in must and not is_seq(byidx[p]): must.add(p); stack.append(p)
    may=set(oset); stack=list(oset)
    while stack:
        x=stack.pop()
        for p in preds[x]:
            if p not in may: may.add(p); stack.append(p)
    fi = [n.index for n in c.fanin(origins)]
    if len(fi)!=len(set(fi)): viol['fanin dup']+=1
    if not must <= set(fi): viol['fanin must']+=1; print('MUST', sorted(must-set(fi)), [byidx[i] for i in sorted(must-set(fi))][:3], origins)
    if not set(fi) <= may: viol['fanin may']+=1
    if set(fi) != must: viol['fanin!=must (info)']+=1
    cnt+=1
print(seed, cnt, dict(viol))
