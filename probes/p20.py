import random, numpy as np, sys, collections, time
from gen import *
import kyupy, kyupy.wave_sim as ws
from kyupy.wave_sim import WaveSim, WaveSimCuda
class Proxy:
    def __init__(self, a): self.a=a; self.log=[]; self.actor=None
    @property
    def shape(self): return self.a.shape
    @property
    def nbytes(self): return self.a.nbytes
    def __getitem__(self,k): self.log.append(('R',self.actor,k)); return self.a[k]
    def __setitem__(self,k,v): self.log.append(('W',self.actor,k)); self.a[k]=v
    def __array__(self, *a, **k): return self.a
P=None
orig_eval = ws.wave_eval_cpu
def eval_wrap(op, cbuf, c_locs, c_caps, sim, *a, **k):
    if isinstance(cbuf, Proxy): cbuf.actor=(int(op[1]), sim)
    try: return orig_eval(op, cbuf, c_locs, c_caps, sim, *a, **k)
    finally:
        if isinstance(cbuf, Proxy): cbuf.actor=None
ws.wave_eval_cpu = eval_wrap
orig_gpu = ws._wave_eval_gpu
def gpu_wrap(op, cbuf, c_locs, c_caps, sim, *a, **k):
    if isinstance(cbuf, Proxy): cbuf.actor=(int(op[1]), sim)
    try: return orig_gpu(op, cbuf, c_locs, c_caps, sim, *a, **k)
    finally:
        if isinstance(cbuf, Proxy): cbuf.actor=None
ws._wave_eval_gpu = gpu_wrap
rng=random.Random(1); nrng=np.random.default_rng(1)
c = gen(rng, n_in=3, n_gates=10, n_ff=1, n_out=2)
delays = nrng.integers(0, 16, size=(1, len(c.lines), 2, 2)).astype(np.float32) / 4
for cls in (WaveSim, WaveSimCuda):
    w = cls(c, delays, sims=4, c_caps=8, c_reuse=True)
    S=w.s_len; w.s[0]=nrng.integers(0,2,(S,4)); w.s[2]=nrng.integers(0,2,(S,4)); w.s[1]=1.0
    ref = cls(c, delays, sims=4, c_caps=8, c_reuse=True); ref.s[:]=np.asarray(w.s); ref.s_to_c(); ref.c_prop(); ref.c_to_s()
    w.c = Proxy(w.c)
    t=time.time(); w.s_to_c(); w.c_prop(); w.c_to_s()
    print(cls.__name__, 'events', len(w.c.log), 'same', np.array_equal(np.asarray(w.s), np.asarray(ref.s)), collections.Counter((e[0], e[1] is None) for e in w.c.log), time.time()-t)
    print(w.c.log[:3], w.c.log[-2:])
