import numpy as np
from kyupy import verilog, sdf
from kyupy.techlib import NANGATE
v = '''module m (a, b, z, y);
input a, b; output z, y; wire w;
NAND2_X1 g1 (.A1(a), .A2(b), .ZN(w));
INV_X1 g2 (.I(w), .ZN(z));
AND2_X1 g3 (.A1(w), .A2(a), .Z(y));
endmodule'''
s = '''(DELAYFILE (DESIGN "m")
(CELL (CELLTYPE "m") (INSTANCE) (DELAY (ABSOLUTE
 (INTERCONNECT g1/ZN g2/I (0.1:0.2:0.3) (0.4:0.5:0.6))
 (INTERCONNECT g1/ZN g3/A1 (0.7:0.8:0.9))
 (INTERCONNECT a g1/A1 (1.1:1.2:1.3) (1.4:1.5:1.6))
 (INTERCONNECT a g3/A2 (2.1:2.2:2.3) (2.4:2.5:2.6))
 (INTERCONNECT b g1/A2 (3.1:3.2:3.3) ())
 (INTERCONNECT g2/ZN z (4.1:4.2:4.3) (4.4:4.5:4.6))
))))'''
df = sdf.parse(s)
for bf in (True, False):
    c = verilog.parse(v, tlib=NANGATE, branchforks=bf)
    d = df.interconnects(c, NANGATE)
    print('branchforks', bf, d.shape)
    for l in c.lines:
        if d[:, l.index].any(): print('  line', l.index, l.driver.name, l.driver.kind, '->', l.reader.name, l.reader.kind, d[:, l.index].tolist())
