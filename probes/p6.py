import numpy as np, traceback
from kyupy import def_file
def t(name, f):
    try:
        r = f(); print('OK  ', name, repr(r)[:800])
    except Exception as e:
        print('EXC ', name, type(e).__name__, str(e)[:250]); traceback.print_exc(limit=-2)
d = '''# comment
VERSION 5.8 ;
DIVIDERCHAR "/" ;
BUSBITCHARS "[]" ;
DESIGN top ;
UNITS DISTANCE MICRONS 1000 ;
DIEAREA ( 0 0 ) ( 100000 200000 ) ;
ROW ROW_0 unit 0 0 N DO 100 BY 1 STEP 380 0 ;
ROW ROW_1 unit 0 2800 FS DO 100 BY 1 STEP 380 0 ;
TRACKS X 190 DO 200 STEP 380 LAYER metal1 ;
TRACKS Y 140 DO 300 STEP 280 LAYER metal2 ;
VIAS 1 ;
 - via1_array + VIARULE Via1Array + CUTSIZE 70 70 + LAYERS metal1 via1 metal2 + CUTSPACING 80 80 + ENCLOSURE 35 5 5 35 + ROWCOL 2 3 ;
END VIAS
COMPONENTS 2 ;
 - u1 NAND2_X1 + PLACED ( 1000 2000 ) N ;
 - u2/x INV_X1 + PLACED ( 3000 2800 ) FS ;
END COMPONENTS
PINS 2 ;
 - a + NET a + DIRECTION INPUT + USE SIGNAL + LAYER metal2 ( 35 0 ) ( 35 70 ) + PLACED ( 500 0 ) N ;
 - vdd + NET vdd + SPECIAL + DIRECTION INOUT + USE POWER ;
END PINS
SPECIALNETS 1 ;
 - vdd ( * VDD ) + USE POWER
   + ROUTED metal1 170 + SHAPE FOLLOWPIN ( 0 0 ) ( 38000 * ) via1_array DO 3 BY 2 STEP 100 200
   NEW metal2 400 + SHAPE STRIPE ( 1000 0 ) ( * 5000 ) via1 ( 2000 * ) ;
END SPECIALNETS
NETS 2 ;
 - a ( PIN a ) ( u1 A1 ) + USE SIGNAL
   + ROUTED metal1 ( 500 0 ) ( * 1000 ) via1 ( 1000 * ) via2 FS
   NEW metal2 ( 1000 1000 ) ( 1000 2000 ) ;
 - n1 ( u1 ZN ) ( u2/x A ) ;
END NETS
END DESIGN
'''
f = None
def p():
    global f; f = def_file.parse(d); return {k:v for k,v in vars(f).items() if k not in ('nets','specialnets','pins','vias')}
t('parse', p)
if f:
    t('vias', lambda: {k:vars(v) for k,v in f.vias.items()})
    t('pins', lambda: {k:vars(v) for k,v in f.pins.items()})
    t('spnets', lambda: {k:vars(v) for k,v in f.specialnets.items()})
    t('nets', lambda: {k:vars(v) for k,v in f.nets.items()})
    t('sp wires', lambda: dict(f.specialnets['vdd'].wires))
    t('sp vias', lambda: dict(f.specialnets['vdd'].vias))
    t('net wires', lambda: dict(f.nets['a'].wires))
    t('net vias', lambda: dict(f.nets['a'].vias))
    t('n1 wires', lambda: dict(f.nets['n1'].wires))
