import numpy as np, traceback
from kyupy import logic, verilog
from kyupy.logic_sim import LogicSim
from kyupy.techlib import NANGATE
def run(v, bf=False):
    c = verilog.parse(v, tlib=NANGATE, branchforks=bf); c.resolve_tlib_cells(NANGATE)
    sn = c.s_nodes
    srcs = [i for i,n in enumerate(sn) if n.kind=='input' or 'dff' in n.kind.lower()]
    n = len(srcs); sims = 2**n
    s = LogicSim(c, sims, m=2)
    pats = np.zeros((s.s_len, sims), dtype=np.uint8)
    for j,i in enumerate(srcs): pats[i] = [3*((x>>(n-1-j))&1) for x in range(sims)]
    s.s[0] = logic.mv_to_bp(pats); s.s_to_c(); s.c_prop(); s.c_to_s()
    mv = logic.bp_to_mv(s.s[1])[:, :sims]
    return {nn.name+':'+nn.kind: ''.join('1' if x==3 else '0' if x==0 else '-' for x in mv[i]) for i,nn in enumerate(sn) if nn.kind!='input'}
tests = {
 'assign out=in': 'module m(a,z); input a; output z; assign z = a; endmodule',
 'const out': "module m(a,z,y); input a; output z,y; assign z = 1'b1; assign y = 1'b0; endmodule",
 'bus out from pins': 'module m(a,b,z); input a,b; output [1:0] z; AND2_X1 g1(.A1(a),.A2(b),.Z(z[1])); OR2_X1 g2(.A1(a),.A2(b),.Z(z[0])); endmodule',
 '1bit bus': 'module m(a,z); input [0:0] a; output [0:0] z; INV_X1 g(.I(a[0]), .ZN(z[0])); endmodule',
 '1bit bus by basename': 'module m(a,z); input [0:0] a; output [0:0] z; INV_X1 g(.I(a), .ZN(z)); endmodule',
 'two outs alias': 'module m(a,b,y,z); input a,b; output y,z; wire w; AND2_X1 g(.A1(a),.A2(b),.Z(w)); assign y = w; assign z = w; endmodule',
 'hex const bus': "module m(a,z); input a; output [3:0] z; assign z = 4'hA; endmodule",
 'dec const bus': "module m(a,z); input a; output [2:0] z; assign z = 3'd6; endmodule",
 'dff': 'module m(d,clk,q,qn); input d,clk; output q,qn; DFF_X1 r(.D(d),.CK(clk),.Q(q),.QN(qn)); endmodule',
 'dff qn unconnected': 'module m(d,clk,q); input d,clk; output q; DFF_X1 r(.D(d),.CK(clk),.Q(q),.QN()); endmodule',
 'dff only qn': 'module m(d,clk,qn); input d,clk; output qn; DFF_X1 r(.D(d),.CK(clk),.QN(qn)); endmodule',
 'decl after use': 'module m(a,b,z); AND2_X1 g(.A1(a),.A2(b),.Z(w)); INV_X1 i(.I(w),.ZN(z)); input a,b; output z; wire w; endmodule',
 'wire bus bits': 'module m(a,b,z); input a,b; output z; wire [2:1] w; AND2_X1 g(.A1(a),.A2(b),.Z(w[2])); INV_X1 i(.I(a),.ZN(w[1])); OR2_X1 o(.A1(w[2]),.A2(w[1]),.Z(z)); endmodule',
 'bus assign bus': 'module m(a,z); input [2:0] a; output [0:2] z; assign z = a; endmodule',
 'concat lhs': 'module m(a,b,z); input a,b; output [1:0] z; assign {z[0], z[1]} = {a, b}; endmodule',
 'part select': 'module m(a,z); input [3:0] a; output [1:0] z; assign z = a[2:1]; endmodule',
 'in to pin and out': 'module m(a,b,y,z); input a,b; output y,z; assign y = a; AND2_X1 g(.A1(a),.A2(b),.Z(z)); endmodule',
 'const pin': "module m(a,z); input a; output z; AND2_X1 g(.A1(a),.A2(1'b1),.Z(z)); endmodule",
 'undeclared wire': 'module m(a,b,z); input a,b; output z; AND2_X1 g(.A1(a),.A2(b),.Z(w)); INV_X1 i(.I(w),.ZN(z)); endmodule',
 'inout': 'module m(a,z); inout a; output z; INV_X1 i(.I(a),.ZN(z)); endmodule',
}
for k,v in tests.items():
    for bf in (False,True):
        try: print(f'{k:24s} bf={int(bf)}', run(v,bf))
        except Exception as e:
            tb = traceback.extract_tb(e.__traceback__)[-1]; print(f'{k:24s} bf={int(bf)} EXC {type(e).__name__} {str(e)[:80]} @{tb.filename.split("/")[-1]}:{tb.lineno}')
