import sys; sys.path.insert(0, '/tmp/x/rs/src')
import numpy as np, kyupy
print(kyupy.__file__)
from kyupy import bench, logic
from kyupy.logic_sim import LogicSim
from kyupy.wave_sim import WaveSim
c = bench.parse('input(a,b) output(n,z) n=and(a,b) z=not(n) ')
for strip in (False, True):
  for reuse in (False, True):
    s = LogicSim(c, 4, m=2, strip_forks=strip, c_reuse=reuse)
    s.s[0] = logic.bparray('00--','01--','10--','11--'); s.s_to_c(); s.c_prop(); s.c_to_s()
    print(strip, reuse, logic.bp_to_mv(s.s[1])[:, :4].tolist())
c2 = bench.load('/repo/tests/b01.bench')
r=[]
for strip in (False, True):
    s = LogicSim(c2, 16, m=2, strip_forks=strip)
    rng=np.random.default_rng(1); s.s[0,:,0] = rng.integers(0,256,(s.s_len,2),dtype=np.uint8); s.cycle(3); r.append(s.s.copy())
print('b01 strip equal', np.array_equal(r[0], r[1]))
