import random, numpy as np, sys, collections
from gen import *
from kyupy.sim import SimOps
seed=int(sys.argv[1]); rng=random.Random(seed); viol=collections.Counter(); n=0; shared=0
for it in range(400):
    c = gen(rng, n_in=rng.randint(1,5), n_gates=rng.randint(1,30), n_ff=rng.randint(0,3), n_out=rng.randint(1,4))
    reuse = rng.random()<.7; strip = rng.random()<.5
    caps = [rng.choice([4,8,12,16]) for _ in range(len(c.lines)+3)]
    s = SimOps(c, c_caps=caps, c_caps_min=4, c_reuse=reuse, strip_forks=strip)
    nl = len(c.lines)
    # stem resolve from graph
    def stem(l):
        if not strip: return l.index
        while l.driver.kind=='__fork__' and len(l.driver.ins)>0 and l.driver.ins[0] is not None: l = l.driver.ins[0]
        return l.index
    st = {l.index: stem(l) for l in c.lines}
    lvl_of_op = np.zeros(len(s.ops), dtype=int)
    for li,(a,b) in enumerate(zip(s.level_starts, s.level_stops)): lvl_of_op[a:b]=li
    birth={}; death=collections.defaultdict(lambda:-1)
    INF=10**9
    for oi,op in enumerate(s.ops):
        z=int(op[1]); birth[z]=lvl_of_op[oi]
        for x in op[2:6]:
            x=int(x); x = st.get(x,x) if x<nl else x
            death[x]=max(death[x], lvl_of_op[oi])
            # operand must be produced earlier
    for oi,op in enumerate(s.ops):
        for x in op[2:6]:
            x=int(x); xs = st.get(x,x) if x<nl else x
            if xs<nl:
                if xs not in birth: viol['operand never produced']+=1
                elif birth[xs] >= lvl_of_op[oi]: viol['intra-level dep']+=1
    for x in (s.zero_idx, s.tmp_idx, s.tmp2_idx): birth[x]=-1; death[x]=INF
    for i,nn in enumerate(c.s_nodes):
        if len(nn.outs)>0: birth[s.ppi_offset+i]=-1; death[s.ppi_offset+i]=INF
        if len(nn.ins)>0 and nn.ins[0] is not None: death[st[nn.ins[0].index]]=INF
    owners = [x for x in birth if not (x<nl and st[x]!=x)]
    iv=[(int(s.c_locs[x]), int(s.c_locs[x]+s.c_caps[x]), birth[x], death[x] if death[x]>=0 else birth[x], x) for x in owners]
    for a in range(len(iv)):
        for b in range(a+1,len(iv)):
            A,B=iv[a],iv[b]
            if A[0]<B[1] and B[0]<A[1]:
                shared+=1
                if not (A[3] < B[2] or B[3] < A[2]): viol['live overlap']+=1; print('OVERLAP', A, B, reuse, strip)
    if max(e for _,e,_,_,_ in iv) > s.c_len: viol['c_len']+=1
    for l in c.lines:
        if st[l.index]!=l.index and (s.c_locs[l.index]!=s.c_locs[st[l.index]] or s.c_caps[l.index]!=s.c_caps[st[l.index]]): viol['alias']+=1
    for i,nn in enumerate(c.s_nodes):
        if len(nn.ins)>0 and (s.c_locs[s.ppo_offset+i]!=s.c_locs[nn.ins[0].index]): viol['ppo alias']+=1
    n+=1
print(seed, n, 'address-sharing pairs', shared, dict(viol))
