import random, numpy as np, time, sys
from gen import *
from kyupy.wave_sim import WaveSim, WaveSimCuda, TMAX, TMIN, TMAX_OVL
from kyupy.logic_sim import LogicSim
from kyupy import logic
seed = int(sys.argv[1]) if len(sys.argv)>1 else 0
rng = random.Random(seed); nrng = np.random.default_rng(seed)
t0=time.time(); nviol=0; n_ovl=0; cases=0
for it in range(150):
    c = gen(rng, n_in=rng.randint(1,5), n_gates=rng.randint(1,25), n_ff=rng.randint(0,3), n_out=rng.randint(1,4))
    sims = rng.randint(1,12)
    delays = nrng.integers(0, 16, size=(1, len(c.lines), 2, 2)).astype(np.float32) / 4
    cap = rng.choice([4,4,8,16])
    w = WaveSim(c, delays, sims=sims, c_caps=cap, c_reuse=False, strip_forks=rng.random()<.3)
    S = w.s_len
    w.s[0] = nrng.integers(0,2,(S,sims)); w.s[2] = nrng.integers(0,2,(S,sims)); w.s[1] = nrng.integers(0,64,(S,sims))/4
    w.s_to_c(); w.c_prop(); w.c_to_s()
    sn = c.s_nodes
    for lane in range(sims):
        a0 = {n.name+':'+n.kind: int(w.s[0,i,lane]) for i,n in enumerate(sn)}
        a1 = {n.name+':'+n.kind: int(w.s[2,i,lane]) for i,n in enumerate(sn)}
        v0 = ref_eval(c, a0); v1 = ref_eval(c, a1)
        for l in c.lines:
            if w.c_locs[l] < 0: continue
            wf = w.c[w.c_locs[l]:w.c_locs[l]+w.c_caps[l], lane]
            k = int(np.argmax(wf >= TMAX))
            init = int(wf[0] <= TMIN); fin = k & 1
            if wf[k] == TMAX_OVL: n_ovl += 1
            cases += 1
            if init != v0[l.index] or fin != v1[l.index]:
                nviol += 1
                if nviol < 5: print('VIOL', it, lane, l.index, l.driver, wf[:k+1], init, v0[l.index], fin, v1[l.index])
print('seed', seed, 'cases', cases, 'viol', nviol, 'ovl', n_ovl, 'time', time.time()-t0)
