import numpy as np, traceback
from kyupy import logic, verilog
from kyupy.logic_sim import LogicSim
from kyupy.techlib import NANGATE
v = r'''
// comment
(* top = 1 *)
module m (a, b, \esc[1] , z, y, k);
  input [1:0] a;
  input [0:1] b;
  input \esc[1] ;
  output [2:0] z; output y;
  output [1:0] k;
  wire [3:0] w; /* block
  comment */
  wire n1, n2;
  assign w[1:0] = {a[1], b[0]};
  assign {w[3], w[2]} = 2'b10;
  assign k = a;
  AND2_X1 g1 (.A1(a[0]), .A2(b[1]), .Z(n1));
  OR2_X1 g2 (.A1(w[3]), .A2(n1), .Z(z[2]));
  XOR2_X1 g3 (.A1(w[1]), .A2(w[0]), .Z(z[1]));
  NAND2_X1 g4 (.A1(\esc[1] ), .A2(w[2]), .ZN(z[0]));
  NOR2_X1 g5 (.A1(1'b0), .A2(n1), .ZN(y));
endmodule
'''
for bf in (False, True):
  try:
    c = verilog.parse(v, tlib=NANGATE, branchforks=bf); c.resolve_tlib_cells(NANGATE)
    print([n.name+':'+n.kind for n in c.s_nodes])
    s = LogicSim(c, 32, m=2)
    nin = 5
    pats = [format(i,'05b') + '-'*(s.s_len-5) for i in range(32)]
    s.s[0] = logic.bparray(*pats); s.s_to_c(); s.c_prop(); s.c_to_s()
    mv = logic.bp_to_mv(s.s[1])[:, :32]
    for i,n in enumerate(c.s_nodes): print(n.name, ''.join('1' if x==3 else '0' if x==0 else '-' for x in mv[i]))
  except Exception: traceback.print_exc(limit=-3)
