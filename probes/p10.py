import random, numpy as np, time, sys
from gen import *
from kyupy.logic_sim import LogicSim
from kyupy import logic
seed = int(sys.argv[1]) if len(sys.argv)>1 else 0
rng = random.Random(seed); nrng = np.random.default_rng(seed)
# 8-valued reference algebra on codes: value = (fin, ini, act) or 'X'
def dec(v):
    v=int(v)
    if v in (1,2): return 'X'
    return (v&1, (v>>1)&1, (v>>2)&1)
def enc(t):
    if t=='X': return 1
    return t[0] | (t[1]<<1) | (t[2]<<2)
def r_not(a):
    return 'X' if a=='X' else (1-a[0],1-a[1],a[2])
def r_and(*xs):
    if any(x==(0,0,0) for x in xs): return (0,0,0)
    if any(x=='X' for x in xs): return 'X'
    return (min(x[0] for x in xs), min(x[1] for x in xs), max(x[2] for x in xs))
def r_or(*xs):
    if any(x==(1,1,0) for x in xs): return (1,1,0)
    if any(x=='X' for x in xs): return 'X'
    return (max(x[0] for x in xs), max(x[1] for x in xs), max(x[2] for x in xs))
def r_xor(*xs):
    if any(x=='X' for x in xs): return 'X'
    return (sum(x[0] for x in xs)&1, sum(x[1] for x in xs)&1, max(x[2] for x in xs))
def prim(kind, i):
    k = kind
    Z=(0,0,0)
    i = i + [Z]*(4-len(i))
    if k=='BUF1': return i[0]   # raw copy
    if k=='INV1': return r_not(i[0])
    for base,f in (('NAND',r_and),('NOR',r_or),('XNOR',r_xor)):
        if k.startswith(base): return r_not(f(*i[:int(k[-1])]))
    for base,f in (('AND',r_and),('OR',r_or),('XOR',r_xor)):
        if k.startswith(base): return f(*i[:int(k[-1])])
    inv = 'I' in k[:3]; kk = k.replace('I','',1) if inv else k
    r = {'AO21': lambda: r_or(r_and(i[0],i[1]), i[2]), 'OA21': lambda: r_and(r_or(i[0],i[1]), i[2]),
         'AO22': lambda: r_or(r_and(i[0],i[1]), r_and(i[2],i[3])), 'OA22': lambda: r_and(r_or(i[0],i[1]), r_or(i[2],i[3])),
         'AO211': lambda: r_or(r_and(i[0],i[1]), i[2], i[3]), 'OA211': lambda: r_and(r_or(i[0],i[1]), i[2], i[3]),
         'MUX21': lambda: r_or(r_and(i[0], r_not(i[2])), r_and(i[1], i[2]))}[kk]()
    return r_not(r) if inv else r
def ref8(c, assign_codes):
    val={}; sn=c.s_nodes; sidx={n:i for i,n in enumerate(sn)}
    for n in c.topological_order():
        k=n.kind.lower()
        if n in sidx and (len(n.ins)==0 or 'dff' in k):
            v = assign_codes[sidx[n]]
            for p,l in enumerate(n.outs):
                if l is None: continue
                val[l.index] = enc(r_not(dec(v))) if ('dff' in k and p==1) else int(v)
            continue
        ins=[val[l.index] if l is not None else 0 for l in n.ins]
        if k=='__fork__':
            for l in n.outs: val[l.index]=ins[0]
            continue
        if k=='output': continue
        v = prim(n.kind, [dec(x) for x in ins]) if n.kind!='BUF1' else None
        if n.outs and n.outs[0] is not None: val[n.outs[0].index] = ins[0] if n.kind=='BUF1' else enc(v)
    out = {}
    for i,n in enumerate(sn):
        if len(n.ins)>0 and n.ins[0] is not None: out[i]=val[n.ins[0].index]
    return out
t0=time.time(); viol=0; cases=0
for it in range(200):
    c = gen(rng, n_in=rng.randint(1,5), n_gates=rng.randint(1,25), n_ff=rng.randint(0,3), n_out=rng.randint(1,4))
    sims = rng.randint(1,20); m = rng.choice([4,8])
    s = LogicSim(c, sims, m=m, c_reuse=rng.random()<.5, strip_forks=rng.random()<.5)
    mv = nrng.integers(0, 4 if m==4 else 8, (s.s_len, sims)).astype(np.uint8)
    s.s[0] = logic.mv_to_bp(mv); s.s_to_c(); s.c_prop(); s.c_to_s()
    got = logic.bp_to_mv(s.s[1])[:, :sims]
    for lane in range(sims):
        exp = ref8(c, mv[:,lane])
        for i,e in exp.items():
            cases+=1
            g = int(got[i,lane])
            if m==4: e = e  # same codes
            ok = (g==e) or (g in (1,) and e in (1,)) 
            if not ok:
                viol+=1
                if viol<6: print('VIOL', it, m, lane, c.s_nodes[i], 'got', g, 'exp', e, 'in', mv[:,lane])
print('seed', seed, 'cases', cases, 'viol', viol, time.time()-t0)
