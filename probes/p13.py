import numpy as np, traceback, random, collections
from kyupy import logic, bench, techlib
from kyupy.circuit import Circuit, Node, Line
from kyupy.logic_sim import LogicSim
rng = random.Random(1)
errs = collections.Counter(); n=0; ex={}
for libname in ('GSC180','NANGATE','NANGATE_ZN','SAED32','SAED90'):
    lib = getattr(techlib, libname)
    print(libname, len(lib.cells))
    for cname,(impl,pins) in lib.cells.items():
        for trial in range(4):
            c = Circuit('t')
            inst = Node(c, 'u1', cname)
            ipins = sorted([(i,p) for p,(i,o) in pins.items() if not o]); opins = sorted([(i,p) for p,(i,o) in pins.items() if o])
            conn_i = [x for x in ipins if trial==0 or rng.random()<.6]; conn_o = [x for x in opins if trial==0 or rng.random()<.6]
            for i,p in conn_i:
                pi = Node(c, f'in_{p}', 'input'); c.io_nodes.append(pi); f = Node(c, f'in_{p}'); Line(c, pi, f); Line(c, f, (inst, i))
            for i,p in conn_o:
                po = Node(c, f'out_{p}', 'output'); c.io_nodes.append(po); f = Node(c, f'out_{p}'); Line(c, (inst,i), f); Line(c, f, po)
            n+=1
            try:
                names = [x.name for x in c.s_nodes]
                c.resolve_tlib_cells(lib)
                names2 = [x.name for x in c.s_nodes]
                if names != names2 and not ('DFF' in cname or 'LAT' in cname or 'DL' in cname):
                    errs['names']+=1; ex.setdefault('names',(libname,cname,trial,names,names2))
                # consistency check
                for l in c.lines:
                    assert l.driver.outs[l.driver_pin] is l and l.reader.ins[l.reader_pin] is l, 'backref'
                for i,nn in enumerate(c.nodes): assert nn.index==i
                s = LogicSim(c, 8, m=2)
            except Exception as e:
                k = type(e).__name__+':'+str(e)[:60]; errs[k]+=1; ex.setdefault(k,(libname,cname,trial,[p for _,p in conn_i],[p for _,p in conn_o]))
print(n, errs)
for k,v in ex.items(): print(k, '->', v)
