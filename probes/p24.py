import time
from kyupy import verilog, sdf, stil, def_file, bench
from kyupy.techlib import NANGATE
v = open('p16.py').read().split("r'''")[1].split("'''")[0]
t=time.time(); [verilog.parse(v, tlib=NANGATE) for _ in range(10)]; print('verilog', (time.time()-t)/10)
s = '''(DELAYFILE (DESIGN "t")
 (CELL (CELLTYPE "NAND2_X1") (INSTANCE g) (DELAY (ABSOLUTE (IOPATH A1 ZN (1:2:3) (4:5:6))))))'''
t=time.time(); [sdf.parse(s) for _ in range(10)]; print('sdf', (time.time()-t)/10)
t=time.time(); [bench.parse('input(a,b) output(z) z=and(a,b)') for _ in range(10)]; print('bench', (time.time()-t)/10)
d = open('p6.py').read().split("d = '''")[1].split("'''")[0].replace('( -35 0 )','( 35 0 )')
t=time.time(); [def_file.parse(d) for _ in range(10)]; print('def', (time.time()-t)/10)
st = open('p5.py').read().split("st = '''")[1].split("'''")[0]
t=time.time(); [stil.parse(st) for _ in range(10)]; print('stil', (time.time()-t)/10)
import kyupy.techlib as tl
t=time.time(); import importlib; importlib.reload(tl); print('techlib reload', time.time()-t)
