import numpy as np, traceback
from kyupy import logic, bench, sim, verilog, sdf, stil
from kyupy.circuit import Circuit, Node, Line
from kyupy.logic_sim import LogicSim
from kyupy.techlib import *
def t(name, f):
    try:
        r = f(); print('OK  ', name, repr(r)[:600])
    except Exception as e:
        print('EXC ', name, type(e).__name__, str(e)[:150]); traceback.print_exc(limit=-3)
# C11 bench: output read internally
c = bench.parse('input(a,b) output(n,z) n=and(a,b) z=not(n)')
s = LogicSim(c, 4, m=2)
s.s[0] = logic.bparray('00--','01--','10--','11--'); s.s_to_c(); s.c_prop(); s.c_to_s()
print('bench out-read-internally', [n.name for n in c.s_nodes], logic.mv_str if False else logic.bp_to_mv(s.s[1])[:, :4].tolist())
# verilog assign order
v = '''
module m (a, b, z, y);
input a, b; output z, y;
wire w1, w2;
assign y = w2;
assign w2 = w1;
AND2_X1 g (.A1(a), .A2(b), .Z(w1));
INV_X1 i (.I(w2), .ZN(z));
endmodule
'''
def vsim():
    c = verilog.parse(v, tlib=NANGATE); c.resolve_tlib_cells(NANGATE)
    s = LogicSim(c, 4, m=2)
    pats = ['00--','01--','10--','11--']
    s.s[0] = logic.bparray(*pats); s.s_to_c(); s.c_prop(); s.c_to_s()
    return [n.name for n in c.s_nodes], logic.bp_to_mv(s.s[1])[:, :4].tolist()
t('verilog assign chain reversed', vsim)
v = v.replace('assign y = w2;\nassign w2 = w1;', 'assign w2 = w1;\nassign y = w2;')
t('verilog assign chain ordered', vsim)
