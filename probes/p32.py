import numpy as np, random
from kyupy import logic, popcount
rng = np.random.default_rng(1); bad=0; n=0
for trial in range(2000):
    nd = rng.integers(1,4); shape = tuple(int(x) for x in rng.integers(1,20,nd))
    a = rng.integers(0,8,shape).astype(np.uint8)
    bp = logic.mv_to_bp(a)
    P = shape[-1] if nd>1 else 1
    exp_shape = (shape[:-1] + (3, (P-1)//8+1)) if nd>1 else (shape[0],3,1)
    if bp.shape != exp_shape: bad+=1; print('shape', shape, bp.shape, exp_shape)
    back = logic.bp_to_mv(bp)
    a2 = a if nd>1 else a[:,None]
    if not np.array_equal(back[..., :P], a2) or back[..., P:].any(): bad+=1; print('rt', shape)
    n+=1
# strings
chars='01X-RFPN'; codes={'0':0,'1':3,'X':1,'-':2,'R':5,'F':6,'P':4,'N':7}
for trial in range(500):
    S=random.randint(1,12); P=random.randint(1,20)
    pats=[''.join(random.choice(chars) for _ in range(S)) for _ in range(P)]
    m = logic.mvarray(*pats)
    exp = np.array([[codes[p[s]] for p in pats] for s in range(S)],dtype=np.uint8)
    if P==1: exp=exp[:,0]
    if m.shape!=exp.shape or not np.array_equal(m,exp): bad+=1; print('mvarray', S,P,m.shape,exp.shape)
    b = logic.bparray(*pats)
    if not np.array_equal(logic.bp_to_mv(b)[..., :P], exp if P>1 else exp[:,None]): bad+=1; print('bparray',S,P)
# pack/unpack
for dt in (np.uint8,np.int8,np.uint16,np.int16,np.uint32,np.int32,np.uint64,np.int64):
    info=np.iinfo(dt)
    a = rng.integers(info.min, info.max, (5,7), dtype=dt, endpoint=True)
    u = logic.unpackbits(a)
    if u.shape != (5,7,8*a.itemsize): bad+=1; print('unpack shape', dt)
    p = logic.packbits(u, dtype=dt)
    if not np.array_equal(p,a): bad+=1; print('pack rt', dt)
    # bit order
    v = a.astype(object)
a = rng.integers(0,256,(9,11),dtype=np.uint8)
if popcount(a) != sum(bin(int(x)).count('1') for x in a.ravel()): bad+=1
print('n', n, 'bad', bad)
