import numpy as np, traceback
from kyupy import logic, bench, stil
def t(name, f):
    try:
        r = f(); print('OK  ', name, repr(r)[:800])
    except Exception as e:
        print('EXC ', name, type(e).__name__, str(e)[:150]); traceback.print_exc(limit=-3)
c = bench.parse('input(a, si) output(z, so) f1=DFF(a) f2=DFF(f1) f3=DFF(f2) z=and(f1,f3) so=buf(f3)')
print([n.name+':'+n.kind for n in c.s_nodes])
st = '''STIL 1.0 { Design 2005; }
SignalGroups { "_pi" = '"a" + "si"'; "_po" = '"z" + "so"'; "_si" = '"si"' { ScanIn; } "_so" = '"so"' { ScanOut; } }
ScanStructures { ScanChain "1" { ScanLength 3; ScanIn "si"; ScanOut "so"; ScanInversion 0;
  ScanCells "top.f1.SI" ! "top.f2.SI" "top.f3.SI" ; ScanMasterClock "clk"; } }
Pattern "_pattern_" {
  W "_default_WFT_";
  "pattern 0": Call "load_unload" { "si"=100; }
  Call "capture" { "_pi"=10; "_po"=LH; }
  "pattern 1": Call "load_unload" { "so"=LLH; "si"=011; }
  Call "capture" { "_pi"=01; "_po"=HL; }
  "end": Call "load_unload" { "so"=HHL; }
}
'''
s = stil.parse(st)
print(s.scan_chains, s.signal_groups, s.patterns)
print(s._maps(c))
t('tests', lambda: s.tests(c).tolist())
t('responses', lambda: s.responses(c).tolist())
