import numpy as np, traceback, gzip, re
from kyupy import logic, bench, sim, verilog, sdf, stil
from kyupy.techlib import *
s = '''(DELAYFILE (DESIGN "t")
 (CELL (CELLTYPE "NAND2_X1") (INSTANCE g) (DELAY (ABSOLUTE (IOPATH A1 ZN (1:2:3) (4:5:6)))))
 (CELL (CELLTYPE "NAND2_X1") (INSTANCE g) (DELAY (ABSOLUTE (IOPATH A2 ZN (7:8:9) (10:11:12)))))
 (CELL (CELLTYPE "NAND2_X1") (INSTANCE h) (DELAY (ABSOLUTE (IOPATH A1 ZN (1:2:3)))) (DELAY (ABSOLUTE (IOPATH (negedge A2) ZN (::3) ()))))
)'''
df = sdf.parse(s); print(df.cells, df._interconnects)
st = gzip.open('/repo/tests/b15_2ig.tf_nf.stil.gz','rt').read()
i = st.find('ScanStructures'); print(st[:1800]); print('....'); print(st[i:i+500]); 
j = st.find('Pattern "'); print(st[j:j+2500])
