import random, numpy as np, time, sys
from gen import *
from kyupy.wave_sim import WaveSim, WaveSimCuda, TMAX, TMIN, TMAX_OVL
from kyupy.logic_sim import LogicSim
from kyupy import logic
seed = int(sys.argv[1]) if len(sys.argv)>1 else 0
rng = random.Random(seed); nrng = np.random.default_rng(seed)
viol = dict(init=0, fin=0, hazard=0, port=0); t0=time.time(); cases=0; const_lines=0
for it in range(150):
    c = gen(rng, n_in=rng.randint(1,5), n_gates=rng.randint(1,25), n_ff=rng.randint(0,3), n_out=rng.randint(1,4))
    sims = rng.randint(1,12); cap = rng.choice([4,8,16])
    delays = nrng.integers(0, 16, size=(1, len(c.lines), 2, 2)).astype(np.float32) / 4
    S = len(c.s_nodes)
    codes = nrng.choice(np.array([0,3,5,6],dtype=np.uint8), (S, sims))
    w = WaveSim(c, delays, sims=sims, c_caps=cap, strip_forks=rng.random()<.3)
    w.s[0] = (codes>>1)&1; w.s[2] = codes&1; w.s[1] = nrng.integers(0,64,(S,sims))/4
    w.s_to_c(); w.c_prop(); w.c_to_s()
    ls = LogicSim(c, sims, m=8, strip_forks=rng.random()<.3)
    ls.s[0] = logic.mv_to_bp(codes); ls.s_to_c(); ls.c_prop(); ls.c_to_s()
    out = logic.bp_to_mv(ls.s[1])[:, :sims]
    for sl in w.poppo_s_locs:
        for lane in range(sims):
            v = int(out[sl,lane]); cases+=1
            if int(w.s[3,sl,lane]) != (v>>1)&1 or int(w.s[6,sl,lane]) != v&1: viol['port']+=1
            if v in (0,3) and (w.s[4,sl,lane] != TMAX or w.s[5,sl,lane] != TMIN): viol['hazard']+=1
    # internal lines
    for l in c.lines:
        if w.c_locs[l] < 0 or ls.c_locs[l] < 0: continue
        lv = logic.bp_to_mv(ls.c[ls.c_locs[l]][None])[0, :sims]
        for lane in range(sims):
            wf = w.c[w.c_locs[l]:w.c_locs[l]+w.c_caps[l], lane]; k=int(np.argmax(wf>=TMAX))
            v=int(lv[lane]); ntr = int(np.sum(wf[:k] > TMIN))
            if v in (0,3):
                const_lines+=1
                if ntr: viol['hazard']+=1
            if int(wf[0]<=TMIN) != (v>>1)&1: viol['init']+=1
            if (k&1) != (v&1): viol['fin']+=1
print(seed, cases, const_lines, viol, time.time()-t0)
