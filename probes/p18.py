import random, sys, collections
from kyupy.sim import Heap
def check(h, live, hw):
    errs=[]
    locs = sorted(h.chunks)
    pos=0
    for l in locs:
        if l!=pos: errs.append(f'gap/overlap at {l} expected {pos}')
        if h.chunks[l] <= 0: errs.append('nonpositive size')
        pos = l + h.chunks[l]
    if pos != h.current_size: errs.append(f'tiling end {pos} != current_size {h.current_size}')
    if h.released != sorted(h.released): errs.append('released unsorted')
    if len(set(h.released)) != len(h.released): errs.append('dup released')
    for r in h.released:
        if r not in h.chunks: errs.append(f'released {r} not a chunk')
    free = set(h.released)
    for a,b in zip(locs, locs[1:]):
        if a in free and b in free: errs.append(f'adjacent free {a},{b}')
    if locs and locs[-1] in free: errs.append('free chunk at end')
    used = {l:h.chunks[l] for l in locs if l not in free}
    if used != live: errs.append(f'live mismatch {used} vs {live}')
    if h.max_size != hw: errs.append(f'max_size {h.max_size} != {hw}')
    return errs
seed=int(sys.argv[1]); rng=random.Random(seed); viol=collections.Counter(); states=set(); ev=0
for hist in range(3000):
    h=Heap(); live={}; hw=0; log=[]
    sizes = rng.choice([[1,2,3],[4,8],[1,4,16],[2,2,3,5]])
    for step in range(rng.randint(1,40)):
        if live and rng.random()<.45:
            loc=rng.choice(list(live)); log.append(('f',loc)); h.free(loc); del live[loc]
        else:
            sz=rng.choice(sizes); loc=h.alloc(sz); log.append(('a',sz,loc))
            for l,s in live.items():
                if loc < l+s and l < loc+sz: viol['overlap']+=1; print('OVERLAP', log)
            live[loc]=sz; hw=max(hw, max(l+s for l,s in live.items()))
        ev+=1
        hwm = max(hw, h.current_size)  # true high-water: extent
        e=check(h, live, h.max_size)
        states.add((tuple(sorted(h.chunks.items())), tuple(h.released)))
        if e: viol[e[0][:30]]+=1; print(e[:2], log[-8:]); break
print(seed, ev, len(states), dict(viol))
