import numpy as np, itertools
from kyupy import logic
exec('def dec' + open('p10.py').read().split('def prim')[0].split('def dec',1)[1])
def cls(v): return 1 if v in (1,2) else v
bad=0; n=0
for m,vals in ((8,range(8)),(4,range(4))):
    for k in range(1,5):
        tuples = list(itertools.product(vals, repeat=k))
        arr = np.array(tuples, dtype=np.uint8).T  # (k, N)
        bps = [logic.mv_to_bp(arr[i][None,:])[0] for i in range(k)]  # each (3, nb)
        for name, rf in (('and',r_and),('or',r_or),('xor',r_xor)):
            f = getattr(logic, f'bp{m}v_{name}')
            if m==4: ins=[b[:2].copy() for b in bps]; out=np.zeros_like(ins[0])
            else: ins=[b.copy() for b in bps]; out=np.zeros_like(ins[0])
            f(out, *ins)
            full = np.zeros((3,out.shape[-1]),dtype=np.uint8); full[:out.shape[0]] = out
            got = logic.bp_to_mv(full[None])[0,:len(tuples)]
            for j,t in enumerate(tuples):
                e = enc(rf(*[dec(x) for x in t])); n+=1
                if cls(int(got[j])) != cls(e): bad+=1; print(m,k,name,t,int(got[j]),e) if bad<10 else None
        if k==1:
            f = getattr(logic, f'bp{m}v_not'); ins = bps[0][:2].copy() if m==4 else bps[0].copy(); out=np.zeros_like(ins); f(out, ins)
            full = np.zeros((3,out.shape[-1]),dtype=np.uint8); full[:out.shape[0]] = out
            got = logic.bp_to_mv(full[None])[0,:len(tuples)]
            for j,t in enumerate(tuples):
                e = enc(r_not(dec(t[0]))); n+=1
                if cls(int(got[j])) != cls(e): bad+=1; print('not',m,t,got[j],e)
# mv ops
a = np.repeat(np.arange(8,dtype=np.uint8),8); b = np.tile(np.arange(8,dtype=np.uint8),8)
for name,rf in (('and',r_and),('or',r_or),('xor',r_xor)):
    got = getattr(logic,'mv_'+name)(a,b)
    for j in range(64):
        e = enc(rf(dec(a[j]),dec(b[j]))); n+=1
        if cls(int(got[j]))!=cls(e): bad+=1; print('mv',name,a[j],b[j],got[j],e)
got = logic.mv_not(np.arange(8,dtype=np.uint8))
for j in range(8):
    if cls(int(got[j])) != cls(enc(r_not(dec(j)))): bad+=1; print('mv_not', j, got[j])
print('checked', n, 'bad', bad)
