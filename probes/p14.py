import numpy as np, traceback, random, collections
from kyupy import logic, bench, techlib
from kyupy.circuit import Circuit, Node, Line
from kyupy.logic_sim import LogicSim
def build(lib, cname, ci, co):
    impl,pins = lib.cells[cname]
    c = Circuit('t'); inst = Node(c, 'u1', cname)
    for p in ci:
        i = pins[p][0]; pi = Node(c, f'in_{p}', 'input'); c.io_nodes.append(pi); f = Node(c, f'in_{p}'); Line(c, pi, f); Line(c, f, (inst, i))
    for p in co:
        i = pins[p][0]; po = Node(c, f'out_{p}', 'output'); c.io_nodes.append(po); f = Node(c, f'out_{p}'); Line(c, (inst,i), f); Line(c, f, po)
    return c
c = build(techlib.GSC180, 'TLATX1', ['C'], ['QN'])
print(c.nodes)
try:
    c.resolve_tlib_cells(techlib.GSC180); print(c.nodes); LogicSim(c, 8, m=2)
except Exception: traceback.print_exc()
