import random, traceback, pickle, collections, sys
from kyupy.circuit import Circuit, Node, Line
def inv(c):
    errs=[]
    for i,n in enumerate(c.nodes):
        if n.index!=i: errs.append(f'node idx {n} at {i}')
        if n.circuit is not c: errs.append(f'node circuit {n}')
        d = c.forks if n.kind=='__fork__' else c.cells
        if d.get(n.name) is not n: errs.append(f'lookup {n}')
    if len(c.forks)+len(c.cells)!=len(c.nodes): errs.append('dict sizes')
    refs = collections.Counter()
    for n in c.nodes:
        for p,l in enumerate(n.ins):
            if l is None: continue
            refs[id(l)]+=1
            if l.reader is not n or l.reader_pin!=p: errs.append(f'in backref n={n} p={p} l={l.index} r={l.reader} rp={l.reader_pin}')
        for p,l in enumerate(n.outs):
            if l is None:
                if n.kind=='__fork__': errs.append(f'fork gap {n}')
                continue
            refs[id(l)]+=1
            if l.driver is not n or l.driver_pin!=p: errs.append(f'out backref n={n} p={p}')
    for i,l in enumerate(c.lines):
        if l.index!=i: errs.append(f'line idx {l.index} at {i}')
        if refs[id(l)]!=2: errs.append(f'line {i} refs {refs[id(l)]}')
        if l.driver.outs[l.driver_pin] is not l: errs.append(f'line {i} not at driver pin')
        if l.reader.ins[l.reader_pin] is not l: errs.append(f'line {i} not at reader pin')
        if l.driver.circuit is not c or l.reader.circuit is not c: errs.append(f'line {i} endpoint removed')
    if sum(refs.values()) != 2*len(c.lines): errs.append('stale line refs')
    st = c.stats
    if st['__node__']!=len(c.nodes) or st['__line__']!=len(c.lines) or st['__fork__']!=len(c.forks) or st['__cell__']!=len(c.cells): errs.append('stats')
    return errs
seed=int(sys.argv[1]); rng=random.Random(seed)
kinds=['__fork__','and','or','DFF','not','input','output','latch']
viol=collections.Counter(); exs={}
for hist in range(300):
    c=Circuit('h'); log=[]; ctr=0
    for step in range(rng.randint(5,60)):
        op = rng.choice(['node']*4+['line']*6+['rmline']*2+['rmnode','elim','copy','pickle'])
        try:
            if op=='node':
                k=rng.choice(kinds); Node(c, f'n{ctr}', k); ctr+=1; log.append(('node',k))
            elif op=='line' and len(c.nodes)>=2:
                d=rng.choice(c.nodes); r=rng.choice(c.nodes)
                if r.kind=='__fork__' and any(x is not None for x in r.ins): continue
                if d is r: continue
                if rng.random()<.5: Line(c,d,r); log.append(('line',d.index,r.index))
                else:
                    # explicit free pins
                    if d.kind=='__fork__': dp=d.outs.free_index()
                    else:
                        free=[i for i in range(len(d.outs)+2) if i>=len(d.outs) or d.outs[i] is None]; dp=rng.choice(free)
                    free=[i for i in range(len(r.ins)+2) if i>=len(r.ins) or r.ins[i] is None]; rp=rng.choice(free) if r.kind!='__fork__' else 0
                    Line(c,(d,dp),(r,rp)); log.append(('linex',d.index,dp,r.index,rp))
            elif op=='rmline' and c.lines:
                l=rng.choice(c.lines); log.append(('rmline',l.index)); l.remove()
            elif op=='rmnode':
                cand=[n for n in c.nodes if all(x is None for x in n.ins) and all(x is None for x in n.outs) and n not in list(c.io_nodes)]
                if cand: n=rng.choice(cand); log.append(('rmnode',n.index)); n.remove()
            elif op=='copy':
                c2=c.copy(); log.append(('copy',))
                if not (c2==c): viol['copy-neq']+=1; exs.setdefault('copy-neq',list(log))
                e=inv(c2)
                if e: viol['copy-inv:'+e[0][:30]]+=1; exs.setdefault('copy-inv:'+e[0][:30],(list(log),e[:3]))
                c=c2
            elif op=='pickle':
                c2=pickle.loads(pickle.dumps(c)); log.append(('pickle',))
                if not (c2==c): viol['pickle-neq']+=1
                e=inv(c2)
                if e: viol['pk-inv:'+e[0][:30]]+=1; exs.setdefault('pk-inv:'+e[0][:30],(list(log),e[:3]))
                c=c2
            elif op=='elim':
                ok = all(len(f.ins)>=1 and f.ins[0] is not None for f in c.forks.values() if len(f.outs)==1)
                if ok: log.append(('elim',)); c.eliminate_1to1_forks()
        except Exception as e:
            k='EXC '+op+' '+type(e).__name__+':'+str(e)[:40]; viol[k]+=1; exs.setdefault(k,list(log)); break
        e=inv(c)
        if e:
            k=op+':'+e[0][:40]; viol[k]+=1; exs.setdefault(k,(list(log)[-6:],e[:3])); break
print(seed, dict(viol))
for k,v in list(exs.items())[:8]: print(' ', k, '->', str(v)[:500])
