import random, numpy as np, time, sys
from gen import *
from kyupy.wave_sim import WaveSim, WaveSimCuda, TMAX, TMIN, TMAX_OVL
import kyupy
seed = int(sys.argv[1]) if len(sys.argv)>1 else 0
rng = random.Random(seed); nrng = np.random.default_rng(seed)
def mk(c, delays, sims, cap, s0, s1, s2, cls=WaveSim, **kw):
    w = cls(c, delays, sims=sims, c_caps=cap, **kw)
    w.s[0]=s0; w.s[1]=s1; w.s[2]=s2
    return w
def go(w, **kw):
    w.s_to_c(); w.c_prop(**kw); w.c_to_s(); return w
viol = dict(ds0=0, ds1=0, ds2=0, lanes=0, k=0, perm=0, permcuda=0, capT=0, abuf=0); t0=time.time()
for it in range(100):
    c = gen(rng, n_in=rng.randint(1,5), n_gates=rng.randint(1,25), n_ff=rng.randint(0,3), n_out=rng.randint(1,4))
    sims = rng.randint(2,9); nd = rng.randint(2,4); cap = rng.choice([4,8,16])
    delays = nrng.integers(0, 16, size=(nd, len(c.lines), 2, 2)).astype(np.float32) / 4
    S = len(c.s_nodes)
    s0 = nrng.integers(0,2,(S,sims)); s2 = nrng.integers(0,2,(S,sims)); s1 = nrng.integers(0,64,(S,sims))/4
    reuse = rng.random()<.5; strip = rng.random()<.5
    # mode 0: seed selects dataset
    ds = rng.randrange(nd)
    w = mk(c, delays, sims, cap, s0,s1,s2, c_reuse=reuse, strip_forks=strip); w.simctl_int[1]=0; go(w, seed=ds)
    ref = go(mk(c, delays[ds], sims, cap, s0,s1,s2, c_reuse=reuse, strip_forks=strip))
    if not np.array_equal(w.s, ref.s): viol['ds0']+=1
    # mode 1: per-sim
    sel = nrng.integers(0, nd, sims)
    w = mk(c, delays, sims, cap, s0,s1,s2, c_reuse=reuse, strip_forks=strip); w.simctl_int[1]=1; w.simctl_int[0]=sel; go(w)
    for lane in range(sims):
        ref = go(mk(c, delays[sel[lane]], sims, cap, s0,s1,s2, c_reuse=reuse, strip_forks=strip))
        if not np.array_equal(w.s[:,:,lane], ref.s[:,:,lane]): viol['ds1']+=1
    # lanes permutation
    perm = nrng.permutation(sims)
    w = go(mk(c, delays[0], sims, cap, s0,s1,s2, c_reuse=reuse, strip_forks=strip))
    wp = go(mk(c, delays[0], sims, cap, s0[:,perm],s1[:,perm],s2[:,perm], c_reuse=reuse, strip_forks=strip))
    if not np.array_equal(w.s[:,:,perm], wp.s): viol['lanes']+=1
    # sims=k
    k = rng.randint(1,sims)
    wk = mk(c, delays[0], sims, cap, s0,s1,s2, c_reuse=reuse, strip_forks=strip); wk.s_to_c(); wk.c_prop(sims=k); wk.c_to_s()
    if not np.array_equal(w.s[:,:,:k], wk.s[:,:,:k]): viol['k']+=1
    # permute ops within levels
    wq = mk(c, delays[0], sims, cap, s0,s1,s2, c_reuse=reuse, strip_forks=strip)
    for a,b in zip(wq.level_starts, wq.level_stops):
        p = nrng.permutation(b-a); wq.ops[a:b] = wq.ops[a:b][p]
    go(wq)
    if not np.array_equal(w.s, wq.s) or (not reuse and not np.array_equal(w.c, wq.c)): viol['perm']+=1
    # capture at time T
    T = rng.randint(0,100)/4
    w.c_to_s(time=T)
    for i, sl in enumerate(w.poppo_s_locs):
        loc = w.c_locs[w.ppo_offset+sl]; capn = w.c_caps[w.ppo_offset+sl]
        for lane in range(sims):
            wf = w.c[loc:loc+capn, lane]; kk = int(np.argmax(wf>=TMAX)); val = int(np.sum(wf[:kk] < T)) & 1
            if w.s[7,sl,lane] != val or w.s[8,sl,lane] != val: viol['capT']+=1
print('seed', seed, viol, time.time()-t0)
