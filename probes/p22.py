import random, numpy as np, sys, collections, traceback
from kyupy import bench, logic
from kyupy.circuit import Circuit, Node, Line
from kyupy.logic_sim import LogicSim
F = {'AND2':lambda a,b:a&b,'OR2':lambda a,b:a|b,'XOR2':lambda a,b:a^b,'NAND2':lambda a,b:1-(a&b),'INV1':lambda a:1-a,'BUF1':lambda a:a,'AOI21':lambda a,b,c:1-((a&b)|c),'MUX21':lambda a,b,s:(b if s else a)}
AR = {'AND2':2,'OR2':2,'XOR2':2,'NAND2':2,'INV1':1,'BUF1':1,'AOI21':3,'MUX21':3}
def gen_impl(rng):
    ni = rng.randint(0,4); ng = rng.randint(0,5)
    ins = [f'I{i}' for i in range(ni)]
    sigs = list(ins); gates=[]
    for g in range(ng):
        k = rng.choice(list(F))
        if not sigs: k = None; break
        args = [rng.choice(sigs) for _ in range(AR[k])]
        gates.append((f'G{g}', k, args)); sigs.append(f'G{g}')
    gnames=[g[0] for g in gates]
    no = rng.randint(0, min(3,len(gnames)))
    outs = rng.sample(gnames, no)
    txt = (f'input({",".join(ins)}) ' if ins else '') + (f'output({",".join(outs)}) ' if outs else '') + ' '.join(f'{n}={k}({",".join(a)})' for n,k,a in gates)
    return ins, outs, gates, txt
def eval_impl(ins, outs, gates, vals):
    v = dict(vals)
    for n,k,a in gates: v[n] = F[k](*[v[x] for x in a])
    return [v[o] for o in outs]
seed=int(sys.argv[1]); rng=random.Random(seed); res=collections.Counter(); ex={}
for it in range(600):
    ins, outs, gates, txt = gen_impl(rng)
    try:
        impl = bench.parse(txt); impl.eliminate_1to1_forks()
    except Exception as e:
        res['implparse '+type(e).__name__]+=1; continue
    c = Circuit('host'); inst = Node(c, 'u', 'CELLX')
    ci = [i for i in range(len(ins)) if rng.random()<.8]; co=[o for o in range(len(outs)) if rng.random()<.8]
    for i in ci:
        p = Node(c, f'p{i}', 'input'); c.io_nodes.append(p); f=Node(c, f'p{i}'); Line(c,p,f); Line(c,f,(inst,i))
    for o in co:
        p = Node(c, f'q{o}', 'output'); c.io_nodes.append(p); f=Node(c, f'q{o}'); Line(c,(inst,o),f); Line(c,f,p)
    key = f'ni={len(ins)} no={len(outs)}'
    try:
        c.substitute(inst, impl)
        for l in c.lines:
            assert l.driver.outs[l.driver_pin] is l and l.reader.ins[l.reader_pin] is l, 'backref'
            assert l.driver.circuit is c and l.reader.circuit is c, 'dangling endpoint'
        for i,nn in enumerate(c.nodes): assert nn.index==i and nn.circuit is c
        if not co: res['ok-noout']+=1; continue
        n = len(ci); sims = 2**n
        s = LogicSim(c, sims, m=2)
        pats = np.zeros((s.s_len, sims), dtype=np.uint8)
        for j in range(n): pats[j] = [3*((x>>j)&1) for x in range(sims)]
        s.s[0] = logic.mv_to_bp(pats); s.s_to_c(); s.c_prop(); s.c_to_s()
        got = logic.bp_to_mv(s.s[1])[:, :sims]
        bad=False
        for x in range(sims):
            vals = {nm:0 for nm in ins}
            for j,i in enumerate(ci): vals[ins[i]] = (x>>j)&1
            exp = eval_impl(ins, outs, gates, vals)
            for jj,o in enumerate(co):
                if (got[n+jj, x] & 1) != exp[o]: bad=True
        res['MISMATCH' if bad else 'ok']+=1
        if bad: ex.setdefault('MISMATCH', (txt, ci, co))
    except Exception as e:
        tb = traceback.extract_tb(e.__traceback__)[-1]
        k = f'{type(e).__name__}@{tb.filename.split("/")[-1]}:{tb.lineno}'; res[k]+=1; ex.setdefault(k,(txt,ci,co,str(e)[:80]))
print(seed, dict(res))
for k,v in ex.items(): print('  ',k,'->',v)
