import random, numpy as np, time, sys
from gen import *
from kyupy.wave_sim import WaveSim, WaveSimCuda, TMAX, TMIN, TMAX_OVL
seed = int(sys.argv[1]) if len(sys.argv)>1 else 0
rng = random.Random(seed); nrng = np.random.default_rng(seed)
def dec(w,l,lane):
    wf = w.c[w.c_locs[l]:w.c_locs[l]+w.c_caps[l], lane]; k=int(np.argmax(wf>=TMAX)); return wf[:k].tolist(), wf[k]
viol=dict(clear_diff=0, big_ovl=0, port=0, abuf=0); n_clear=0; n_ovl=0; t0=time.time()
for it in range(150):
    c = gen(rng, n_in=rng.randint(1,5), n_gates=rng.randint(1,25), n_ff=rng.randint(0,3), n_out=rng.randint(1,4))
    sims = rng.randint(1,8); dt = rng.choice([np.float32, np.float64])
    delays = (nrng.integers(0, 16, size=(1, len(c.lines), 2, 2)) / 4).astype(dt)
    caps = [rng.choice([4,4,8,12]) for _ in range(len(c.lines)+3)]
    S=len(c.s_nodes)
    a_ctrl = np.zeros((len(c.lines)+3,3),dtype=np.int32); a_ctrl[:,0] = nrng.integers(-1,3,len(c.lines)+3); a_ctrl[:,1:] = nrng.integers(-3,4,(len(c.lines)+3,2))
    s0 = nrng.integers(0,2,(S,sims)); s2 = nrng.integers(0,2,(S,sims)); s1 = nrng.integers(0,64,(S,sims))/4
    ws=[]
    for cp in (caps, 256):
        w = WaveSim(c, delays, sims=sims, c_caps=cp, a_ctrl=a_ctrl); w.s[0]=s0; w.s[1]=s1; w.s[2]=s2; w.s_to_c(); w.c_prop(); w.c_to_s(); ws.append(w)
    w, wb = ws
    for l in c.lines:
        for lane in range(sims):
            a,ta = dec(w,l,lane); b,tb = dec(wb,l,lane)
            if tb == TMAX_OVL: viol['big_ovl']+=1
            if ta != TMAX_OVL:
                n_clear+=1
                if a != b: viol['clear_diff']+=1
            else: n_ovl+=1
    for sl in w.poppo_s_locs:
        for lane in range(sims):
            if w.s[10,sl,lane]==0 and not np.array_equal(w.s[3:7,sl,lane], wb.s[3:7,sl,lane]): viol['port']+=1
    # abuf oracle on big-cap run
    exp = np.zeros_like(wb.abuf)
    evaluated = set()
    for n in c.nodes:
        k=n.kind.lower()
        if k=='output': continue
        for p,l in enumerate(n.outs):
            if l is None: continue
            if k=='__fork__' or n in c.s_nodes or p==0: evaluated.add(l.index)
    for li in evaluated:
        a_idx, wr, wf_ = a_ctrl[li]
        if a_idx < 0: continue
        for lane in range(sims):
            tr, _ = dec(wb, c.lines[li], lane)
            init = 1 if (tr and tr[0] <= TMIN) else 0
            fin = [t for t in tr if t > TMIN]
            rises = sum(1 for i in range(len(fin)) if (init + i) % 2 == 0); falls = len(fin)-rises
            exp[a_idx, lane] += rises*wr + falls*wf_
    if not np.array_equal(exp, wb.abuf): viol['abuf']+=1
print(seed, 'clear', n_clear, 'ovl', n_ovl, viol, time.time()-t0)
