import numpy as np, traceback
from kyupy import logic, bench, sim, verilog, sdf
from kyupy.circuit import Circuit, Node, Line
from kyupy.logic_sim import LogicSim
from kyupy.techlib import *
def t(name, f):
    try:
        r = f(); print('OK  ', name, repr(r)[:300])
    except Exception as e:
        print('EXC ', name, type(e).__name__, str(e)[:150])
# C17: gate with pin0 unconnected
c = Circuit()
a = Node(c,'a','input'); g = Node(c,'g','and'); o = Node(c,'o','output')
c.io_nodes.extend([a,o])
Line(c, a, (g,1)); Line(c, g, o)
t('topo None pin0', lambda: [n.name for n in c.topological_order()])
t('topo level', lambda: [(n.name,l) for n,l in c.topological_order_with_level()])
t('rev topo', lambda: [n.name for n in c.reversed_topological_order()])
t('fanin', lambda: [n.name for n in c.fanin([o])])
# sequential fanin
c2 = bench.parse('input(x) output(z) q=dff(d) d=and(x,q) z=not(q)')
t('topo seq', lambda: [n.name+':'+n.kind for n in c2.topological_order()])
t('rev seq', lambda: [n.name+':'+n.kind for n in c2.reversed_topological_order()])
t('fanin seq z', lambda: [n.name+':'+n.kind for n in c2.fanin([c2.forks['z']])])
t('fanin seq q', lambda: [n.name+':'+n.kind for n in c2.fanin([c2.cells['q']])])
# C19 adders
for lib,name in ((GSC180,'ADDFX1'),(GSC180,'ADDHX1'),(NANGATE,'HA_X1'),(NANGATE,'FA_X1'),(SAED32,'FADDX1_RVT'),(SAED32,'HADDX1_RVT')):
    impl, pins = lib.cells[name]
    ic = impl.copy()
    s = LogicSim(ic, 8, m=2)
    nin = len([n for n in ic.io_nodes if len(n.ins)==0])
    pats = [format(i, f'0{nin}b')[::-1] + '-'*(s.s_len-nin) for i in range(2**nin)]
    s.s[0] = logic.bparray(*pats); s.s_to_c(); s.c_prop(); s.c_to_s()
    mv = logic.bp_to_mv(s.s[1])[:, :2**nin]
    print(name, pins, [ (n.name, ''.join(map(str, (mv[i]&1)))) for i,n in enumerate(ic.s_nodes) if len(n.ins)>0])
