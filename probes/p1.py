import numpy as np, traceback
from kyupy import logic, bench, sim
from kyupy.logic_sim import LogicSim
def t(name, f):
    try:
        r = f(); print('OK  ', name, repr(r)[:200])
    except Exception as e:
        print('EXC ', name, type(e).__name__, str(e)[:150])
a = logic.mvarray('01X-RFPN'); b = logic.mvarray('1'*8)
t('mv_and out>1', lambda: logic.mv_and(a,b,out=np.empty(8,dtype=np.uint8)))
o1 = np.zeros(1,dtype=np.uint8)
t('mv_and out 1elem zero', lambda: (logic.mv_and(logic.mvarray('1'),logic.mvarray('1'),out=o1), o1))
o1 = np.ones(1,dtype=np.uint8)
t('mv_and out 1elem one', lambda: (logic.mv_and(logic.mvarray('1'),logic.mvarray('1'),out=o1), o1))
t('mv_str', lambda: logic.mv_str(a))
t('mv_str2', lambda: logic.mv_str(logic.mvarray('01','X-')))
c = bench.parse('input(a,b) output(z) n=and(a,b) z=not(n)')
for m in (2,4,8):
    s = LogicSim(c, 8, m=m)
    s.s[0] = logic.bparray('00-','01-','10-','11-')[:, :, :]
    s.s_to_c()
    log=[]
    t(f'inject m={m}', lambda: (s.c_prop(inject_cb=lambda l,v: log.append((l, v.shape))), log))
