import random, numpy as np, sys, collections, pickle, traceback
from gen import *
from kyupy.logic_sim import LogicSim
from kyupy import logic
seed=int(sys.argv[1]); rng=random.Random(seed); nrng=np.random.default_rng(seed); viol=collections.Counter(); ex={}
def tt(c, pats):
    s = LogicSim(c, pats.shape[1], m=2); s.s[0] = logic.mv_to_bp(pats); s.s_to_c(); s.c_prop(); s.c_to_s()
    return logic.bp_to_mv(s.s[1])[:, :pats.shape[1]]
for it in range(300):
    c = gen(rng, n_in=rng.randint(1,5), n_gates=rng.randint(1,25), n_ff=rng.randint(0,3), n_out=rng.randint(1,4))
    names = [n.name for n in c.s_nodes]
    pats = (nrng.integers(0,2,(len(names), 32))*3).astype(np.uint8)
    base = tt(c, pats)
    for tname in ('copy','pickle','elim','elim+copy'):
        try:
            if tname=='copy': c2=c.copy()
            elif tname=='pickle': c2=pickle.loads(pickle.dumps(c))
            else:
                c2=c.copy(); c2.eliminate_1to1_forks()
                if tname=='elim+copy': c2=pickle.loads(pickle.dumps(c2.copy()))
            n2=[n.name for n in c2.s_nodes]
            if n2!=names: viol[tname+' names']+=1; ex.setdefault(tname+' names',(names,n2)); continue
            r = tt(c2, pats)
            if not np.array_equal(r, base): viol[tname+' func']+=1
        except Exception as e:
            tb = traceback.extract_tb(e.__traceback__)[-1]
            k=f'{tname} {type(e).__name__}@{tb.filename.split("/")[-1]}:{tb.lineno}'; viol[k]+=1; ex.setdefault(k, str(e)[:100])
print(seed, dict(viol)); [print(' ',k,v) for k,v in ex.items()]
