import numpy as np, traceback
from kyupy import logic, bench
from kyupy.logic_sim import LogicSim
from kyupy.wave_sim import WaveSim
def t(name, f):
    try:
        r = f(); print('OK  ', name, repr(r)[:300])
    except Exception as e:
        print('EXC ', name, type(e).__name__, str(e)[:150]); traceback.print_exc(limit=-2)
c = bench.parse('input(a,b) output(z) n=and(a,b) z=not(n)')
t('bench strip', lambda: LogicSim(c, 4, m=2, strip_forks=True))
c = bench.parse('input(a,b) output(z) n=and(a,b) m=or(a,n) z=xor(n,m)')
t('bench strip2', lambda: LogicSim(c, 4, m=2, strip_forks=True))
c2 = bench.load('/repo/tests/b01.bench')
t('b01 strip', lambda: LogicSim(c2, 4, m=2, strip_forks=True))
t('b01 reuse', lambda: LogicSim(c2, 4, m=2, c_reuse=True))
