import numpy as np, traceback
from kyupy import logic, bench, stil
c = bench.parse('input(a, b, clk, si) output(z, so) f1=DFF(d1) f2=DFF(d2) f3=DFF(d3) d1=and(a,f3) d2=xor(f1,b) d3=or(f2,a) z=and(f1,f3) so=buf(f3)')
print([n.name+':'+n.kind for n in c.s_nodes])
st = '''STIL 1.0 { Design 2005; }
Header { Title "x"; History { Ann {* a *} } }
Signals { "a" In; "b" In; "clk" In; "si" In { ScanIn; } "z" Out; "so" Out { ScanOut; } }
SignalGroups { "_pi" = '"b" + "a" + "clk" + "si"'; "_po" = '"so" + "z"'; "_si" = '"si"' { ScanIn; } "_so" = '"so"' { ScanOut; } }
Timing { WaveformTable "_default_WFT_" { Period '100ns'; Waveforms { "a" { 0 { '0ns' D; } } } } }
ScanStructures { ScanChain "1" { ScanLength 3; ScanIn "si"; ScanOut "so"; ScanInversion 0;
  ScanCells "top.f1.SI" "top.f2.SI" "top.f3.SI" ; ScanMasterClock "clk"; } }
PatternBurst "_burst_" { PatList { "_pattern_" { } } }
PatternExec { PatternBurst "_burst_"; }
Procedures { "load_unload" { W "_default_WFT_"; } }
MacroDefs { "test_setup" { W "_default_WFT_"; } }
Pattern "_pattern_" {
  W "_default_WFT_";
  "precondition all Signals": C { "_pi"=0000; "_po"=XX; }
  Macro "test_setup";
  Ann {* fast_sequential *}
  "pattern 0": Call "load_unload" { "si"=100; }
  Call "allclock_launch" { "_pi"=10P0; }
  Call "allclock_capture" { "_pi"=01P0; "_po"=LH; }
  "pattern 1": Call "load_unload" { "so"=LLH; "si"=0N1; }
  Call "allclock_launch" { "_pi"=1100; }
  Call "allclock_capture" { "_pi"=00P0; "_po"=HL; }
  "pattern 2": Call "load_unload" { "so"=HXL; "si"=110; }
  Call "multiclock_capture" { "_pi"=11P1; "_po"=LL; }
  "end": Call "load_unload" { "so"=HHL; }
}
'''
s = stil.parse(st)
for p in s.patterns: print(p)
print('tests\n', logic.mv_str if False else '', ["".join('0X-1PRFN'[v] for v in row) for row in s.tests(c)])
print('resp\n', ["".join('0X-1PRFN'[v] for v in row) for row in s.responses(c)])
print('loc\n', ["".join('0X-1PRFN'[v] for v in row) for row in s.tests_loc(c)])
