import random, numpy as np
from kyupy.circuit import Circuit, Node, Line
from kyupy import sim
PRIMS = {  # kind -> (arity, lut)
 'BUF1':(1,sim.BUF1),'INV1':(1,sim.INV1),
 'AND2':(2,sim.AND2),'AND3':(3,sim.AND3),'AND4':(4,sim.AND4),'NAND2':(2,sim.NAND2),'NAND3':(3,sim.NAND3),'NAND4':(4,sim.NAND4),
 'OR2':(2,sim.OR2),'OR3':(3,sim.OR3),'OR4':(4,sim.OR4),'NOR2':(2,sim.NOR2),'NOR3':(3,sim.NOR3),'NOR4':(4,sim.NOR4),
 'XOR2':(2,sim.XOR2),'XOR3':(3,sim.XOR3),'XOR4':(4,sim.XOR4),'XNOR2':(2,sim.XNOR2),'XNOR3':(3,sim.XNOR3),'XNOR4':(4,sim.XNOR4),
 'AO21':(3,sim.AO21),'OA21':(3,sim.OA21),'AOI21':(3,sim.AOI21),'OAI21':(3,sim.OAI21),
 'AO22':(4,sim.AO22),'OA22':(4,sim.OA22),'AOI22':(4,sim.AOI22),'OAI22':(4,sim.OAI22),
 'AO211':(4,sim.AO211),'OA211':(4,sim.OA211),'AOI211':(4,sim.AOI211),'OAI211':(4,sim.OAI211),'MUX21':(3,sim.MUX21)}
def gen(rng, n_in=4, n_gates=12, n_ff=2, n_out=3):
    """returns Circuit; every signal has a fork; pure structural."""
    c = Circuit('r')
    sigs = []  # fork nodes
    for i in range(n_in):
        n = Node(c, f'i{i}', 'input'); c.io_nodes.append(n); f = Node(c, f'i{i}'); Line(c, n, f); sigs.append(f)
    ffs = []
    for i in range(n_ff):
        n = Node(c, f'ff{i}', 'DFF'); f = Node(c, f'ff{i}'); Line(c, (n,0), f); sigs.append(f); ffs.append(n)
        if rng.random() < .5:
            f2 = Node(c, f'ffn{i}'); Line(c, (n,1), f2); sigs.append(f2)
    for g in range(n_gates):
        kind = rng.choice(list(PRIMS) if rng.random()<.5 else ['XOR2','XOR3','XNOR2','XOR4']); ar = PRIMS[kind][0]
        n = Node(c, f'g{g}', kind)
        for p in range(ar):
            Line(c, rng.choice(sigs), (n,p))
        f = Node(c, f'g{g}'); Line(c, n, f); sigs.append(f)
    for ff in ffs:
        Line(c, rng.choice(sigs), (ff,0))
    for i in range(n_out):
        n = Node(c, f'o{i}', 'output'); c.io_nodes.append(n); Line(c, rng.choice(sigs[-n_gates:] if n_gates else sigs), n)
    return c
def ref_eval(c, assign):
    """assign: dict node-> 0/1 for inputs & state elems. returns dict line.index -> value."""
    val = {}
    snodes = c.s_nodes
    for n in c.topological_order():
        k = n.kind.lower()
        if n in snodes and (len(n.ins)==0 or 'dff' in k or 'latch' in k):
            v = assign[n.name+':'+n.kind]
            for p,l in enumerate(n.outs):
                if l is not None: val[l.index] = (1-v) if ('dff' in k and p==1) else v
            continue
        ins = [val[l.index] if l is not None else 0 for l in n.ins]
        if k == '__fork__':
            for l in n.outs:
                if l is not None: val[l.index] = ins[0]
            continue
        if k in ('output',): continue
        ar, lut = PRIMS[n.kind]
        idx = sum(b<<i for i,b in enumerate(ins + [0]*(4-len(ins))))
        v = (int(lut) >> idx) & 1
        if n.outs and n.outs[0] is not None: val[n.outs[0].index] = v
    return val
