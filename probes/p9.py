import random, numpy as np, time, sys
from gen import *
from kyupy.wave_sim import WaveSim, WaveSimCuda, TMAX, TMIN, TMAX_OVL
seed = int(sys.argv[1]) if len(sys.argv)>1 else 0
rng = random.Random(seed); nrng = np.random.default_rng(seed)
def wf_of(w, l, lane):
    wf = w.c[w.c_locs[l]:w.c_locs[l]+w.c_caps[l], lane]
    k = int(np.argmax(wf >= TMAX)); return wf[:k], wf[k]
def run(c, delays, sims, cap, inw, shift=0.0, scale=1.0, **kw):
    w = WaveSim(c, delays*scale, sims=sims, c_caps=cap, **kw)
    for i,loc in enumerate(w.pippi_c_locs):
        for lane in range(sims):
            init, times = inw[i][lane]
            seq = ([TMIN] if init else []) + [t*scale+shift for t in times] + [TMAX]
            w.c[loc:loc+len(seq), lane] = seq
    w.c_prop(); w.c_to_s(); return w
t0=time.time(); viol={'mono':0,'shift':0,'scale':0,'sta_lo':0,'sta_hi':0}; cases=0; multi=0
for it in range(150):
    c = gen(rng, n_in=rng.randint(1,5), n_gates=rng.randint(1,25), n_ff=rng.randint(0,3), n_out=rng.randint(1,4))
    sims = rng.randint(1,6)
    polind = rng.random() < .6
    if polind:
        d = nrng.integers(0, 16, size=(1, len(c.lines), 1, 1)).astype(np.float32) / 4
        delays = np.broadcast_to(d, (1,len(c.lines),2,2)).copy()
    else:
        delays = nrng.integers(0, 16, size=(1, len(c.lines), 2, 2)).astype(np.float32) / 4
    cap = rng.choice([8,16,32,64])
    wtmp = WaveSim(c, delays, sims=sims, c_caps=cap)
    inw = []
    for i in range(len(wtmp.pippi_c_locs)):
        row=[]
        for lane in range(sims):
            init = rng.randint(0,1); n = rng.randint(0, 2 if init else 3)
            times = sorted(rng.sample(range(0,80), n)); row.append((init, [t/4 for t in times]))
        inw.append(row)
    w = run(c, delays, sims, cap, inw); w2 = run(c, delays, sims, cap, inw, shift=16.0); w3 = run(c, delays, sims, cap, inw, scale=8.0)
    # STA
    dmin = delays[0].reshape(len(c.lines), 4).min(axis=1); dmax = delays[0].reshape(len(c.lines),4).max(axis=1)
    for lane in range(sims):
        lo = {}; hi = {}
        for i, sl in enumerate(w.pippi_s_locs):
            init, times = inw[i][lane]
            lo[('s',sl)] = min(times) if times else np.inf; hi[('s',sl)] = max(times) if times else -np.inf
        sn = c.s_nodes; sidx = {n:i for i,n in enumerate(sn)}
        for n in c.topological_order():
            k = n.kind.lower()
            if n in sidx and (len(n.ins)==0 or 'dff' in k):
                for l in n.outs:
                    if l is not None: lo[l.index] = lo[('s',sidx[n])]; hi[l.index] = hi[('s',sidx[n])]
                continue
            ins = [l for l in n.ins if l is not None]
            a = min([lo[l.index] + dmin[l.index] for l in ins], default=np.inf); b = max([hi[l.index] + dmax[l.index] for l in ins], default=-np.inf)
            for l in n.outs:
                if l is not None: lo[l.index]=a; hi[l.index]=b
        for l in c.lines:
            a, term = wf_of(w, l, lane); b,_ = wf_of(w2, l, lane); cc,_ = wf_of(w3, l, lane)
            cases += 1
            fa = a[a > TMIN]; fb = b[b > TMIN]; fc = cc[cc>TMIN]
            if len(fa) > 1: multi += 1
            if polind and np.any(np.diff(fa) <= 0): viol['mono']+=1; print('MONO', it, lane, l.index, a, term)
            if len(fa)!=len(fb) or np.any(fa+16 != fb): viol['shift']+=1
            if len(fa)!=len(fc) or np.any(fa*8 != fc): viol['scale']+=1
            if len(fa) and fa.min() < lo[l.index]: viol['sta_lo']+=1
            if len(fa) and fa.max() > hi[l.index]: viol['sta_hi']+=1
print('seed', seed, 'cases', cases, 'multi', multi, viol, 'time', time.time()-t0)
