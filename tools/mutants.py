#!/venv/bin/python
"""Sensitivity self-test: apply each deliberate breaking change from mutants/mutants.json to a scratch copy of the
repository (under /var/tmp, removed afterwards) and require the owning property's quick check to exit 1.

usage: tools/mutants.py [name-substring ...] [--tier quick] [--keep-going]
"""
import json, os, shutil, subprocess, sys, tempfile

HERE = os.path.dirname(os.path.dirname(os.path.abspath(__file__)))
specs = json.load(open(os.path.join(HERE, 'mutants', 'mutants.json')))
args = [a for a in sys.argv[1:] if not a.startswith('--')]
tier = 'quick'
if '--tier' in sys.argv:
    tier = sys.argv[sys.argv.index('--tier') + 1]
    args = [a for a in args if a != tier]
results = []
for m in specs:
    if args and not any(a in m['name'] or a in m['props'] for a in args):
        continue
    scratch = tempfile.mkdtemp(prefix='kyupy-mut-', dir='/var/tmp')
    try:
        shutil.copytree('/repo/src', os.path.join(scratch, 'src'))
        os.symlink('/repo/tests', os.path.join(scratch, 'tests'))      # the corpus shards read the shipped netlists
        path = os.path.join(scratch, 'src', 'kyupy', m['file'])
        src = open(path).read()
        cnt = src.count(m['old'])
        if cnt != m.get('count', 1):
            results.append((m['name'], 'STALE', f'old text occurs {cnt}x'))
            continue
        src = src.replace(m['old'], m['new']) if m.get('count', 1) != 1 or not m.get('nth') else src
        open(path, 'w').write(src)
        for pid in m['props']:
            env = dict(os.environ, VERIF_REPO=scratch, VERIF_TMP='/var/tmp', VERIF_NO_EVIDENCE='1')
            p = subprocess.run([os.path.join(HERE, 'check'), pid, '--tier', tier], env=env, stdout=subprocess.PIPE, stderr=subprocess.STDOUT)
            out = p.stdout.decode()
            mon = [l.strip() for l in out.split('\n') if l.strip().startswith('monitor=')][:1]
            results.append((m['name'], pid, {0: 'MISSED', 1: 'caught', 2: 'INCONCLUSIVE'}.get(p.returncode, f'rc={p.returncode}'), (mon[0][:150] if mon else out.strip().split('\n')[-1][:150])))
            print(results[-1], flush=True)
    finally:
        shutil.rmtree(scratch, ignore_errors=True)
missed = [r for r in results if r[2] != 'caught']
print(f'{len(results)} mutant runs, {len(missed)} not caught')
for r in missed:
    print('  NOT CAUGHT', r)
sys.exit(1 if missed else 0)
