#!/venv/bin/python
"""Regenerates /verif/MANIFEST.json from the property modules present in vk/props (keeps it schema-valid)."""
import importlib, json, os, sys
HERE = os.path.dirname(os.path.dirname(os.path.abspath(__file__)))
sys.path.insert(0, HERE)
props = [json.loads(l) for l in open(os.path.join(HERE, 'properties.jsonl'))]
checks, na = [], []
for p in props:
    pid = p['id']
    path = os.path.join(HERE, 'vk', 'props', pid.lower() + '.py')
    if not os.path.exists(path):
        na.append({'property_id': pid, 'reason': 'check not built yet in this session (planned in DESIGN.md section 3); nothing is claimed for it'})
        continue
    src = open(path).read()
    ns = {}
    # MANIFEST_* constants are plain literals at the top of each module
    meta = {}
    for key in ('TECHNIQUE', 'LEVEL_TEXT', 'LEVEL_NOTE', 'DESIGN_REF'):
        import re
        m = re.search(rf'^{key}\s*=\s*(\(.*?\)|\'.*?\'|".*?")\s*$', src, re.S | re.M)
        if m:
            meta[key] = eval(m.group(1))
    checks.append({
        'property_id': pid,
        'quick_cmd': f'./check {pid} --tier quick',
        'thorough_cmd': f'./check {pid} --tier thorough',
        'evidence_file': f'/verif/evidence/{pid}.json',
        'replay_cmd_template': f'./check {pid} --replay {{path}}',
        'engine': 'vk',
        'level_claimed': {'category': 'exploration',
                          'text': meta.get('LEVEL_TEXT', 'runtime monitors over seeded workloads; held on the executions observed'),
                          'design_ref': meta.get('DESIGN_REF', f'DESIGN.md section 3, {pid}')},
        'level_note': meta.get('LEVEL_NOTE', 'trusted: the reference models in vk/ref_*.py, numpy, CPython'),
        'technique': meta.get('TECHNIQUE', 'runtime monitoring: reference-model oracle over seeded workloads'),
    })
man = {
    'version': 1,
    'setup_cmd': 'true',
    'hooks': {'guard': 'KYUPY_VERIF', 'enable': 'no source hooks: monitors interpose on module globals / instance attributes from the harness (DESIGN.md section 0); the guard name is reserved but unused',
              'baseline_off_cmd': 'cd /repo && /venv/bin/python -m pytest -q -p no:cacheprovider --timeout=900 tests',
              'source_commits': [], 'add_only': True},
    'engines': [{'name': 'vk', 'path': '/verif/vk', 'serves_properties': [c['property_id'] for c in checks],
                 'kind_free_text': 'Python runtime monitors: reference-model oracles, invariant walkers, shadow-memory sanitizer and determinacy-race detector for the signal memory, schedule perturbation; sharded seeded workloads'}],
    'checks': checks,
    'not_applicable': na,
    'notes': 'Family: runtime monitoring. Exit 0 held / 1 violation / 2 inconclusive. Known findings: /verif/known_findings.json.',
}
json.dump(man, open(os.path.join(HERE, 'MANIFEST.json'), 'w'), indent=1)
print('checks', len(checks), 'not_applicable', len(na))
