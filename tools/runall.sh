#!/bin/bash
# tools/runall.sh [quick|thorough] [seed]  - runs every check once, prints one summary line each
cd "$(dirname "$(readlink -f "$0")")/.." || exit 2
tier=${1:-quick}; seed=${2:-0}; rc=0
for p in C01 C02 C03 C04 C05 C06 C07 C08 C09 C10 C11 C12 C13 C14 C15 C16 C17 C18 C19 C20; do
  out=$(./check $p --tier $tier --seed $seed 2>&1); r=$?
  echo "$out" | grep -E "^(VIOLATION|INCONCLUSIVE|KNOWN-FINDING)" | cut -c1-200
  echo "rc=$r $(echo "$out" | grep -E "^C[0-9]+ tier=" )"
  [ $r -ne 0 ] && rc=1
done
exit $rc
