#!/venv/bin/python
"""False-alarm validation: run the checks against behaviour-preserving changes of the repository.

  tools/benign.py add <worktree dir> <n> <property> [--checks C01,C06 | --all-checks] [--tier quick]
      takes benign<n>.diff (+ BENIGN.md) from a sub-agent's worktree, applies it to a fresh scratch worktree of /repo,
      makes sure the repository's own tests pass with it, runs the checks (default: all twenty) against the patched tree
      and stores the case under benign/<property>-b<n>/ (patch.diff, BENIGN.md, meta.json).  A check that does not exit 0
      on such a tree is a false alarm (rc 1) or lost its reach (rc 2) and has to be looked at.
  tools/benign.py run [name-substring ...] [--tier quick] [--checks ... | --relevant]
      re-runs the checks (--relevant: those that execute code of the files the change touches) against every stored benign change.
Scratch worktrees live under /var/tmp and are removed afterwards.
"""
import json, os, shutil, subprocess, sys, tempfile, time

HERE = os.path.dirname(os.path.dirname(os.path.abspath(__file__)))
BENIGN = os.path.join(HERE, 'benign')
ALL = [f'C{i:02d}' for i in range(1, 21)]
# which checks execute code of which repository file (for --relevant: the regression run over all stored changes)
RELEVANT = {
    'logic.py': 'C01 C02 C05 C12 C15 C16 C18',
    'logic_sim.py': 'C01 C02 C05 C06 C07 C08 C10 C11 C16 C18 C19',
    'sim.py': 'C01 C02 C03 C04 C05 C06 C07 C08 C10 C11 C13 C16 C18',
    'wave_sim.py': 'C03 C04 C05 C06 C07 C08 C13',
    'circuit.py': 'C01 C03 C07 C08 C09 C10 C11 C14 C16 C17 C18 C19',
    'verilog.py': 'C01 C08 C09 C10 C11 C14 C19', 'bench.py': 'C01 C08 C09 C10 C11 C17 C19',
    'techlib.py': 'C09 C10 C11 C14 C19', 'sdf.py': 'C14', 'stil.py': 'C18', 'def_file.py': 'C20',
    '__init__.py': 'C03 C04 C05 C06 C07 C08 C11 C13 C14 C15 C18 C20',
}


def relevant_checks(patch, prop):
    import re
    if MODE == 'owner':
        return [prop] if prop in ALL else ['C07']
    if MODE == 'fragile':
        files = set(re.findall(r'^\+\+\+ b/src/kyupy/(\S+)', open(patch).read(), flags=re.M))
        return [c for c in ('C07', 'C08') if c != prop] if files & {'sim.py', 'logic_sim.py', 'wave_sim.py', '__init__.py'} or any(f.startswith('_') for f in files) else []
    files = set(re.findall(r'^\+\+\+ b/src/kyupy/(\S+)', open(patch).read(), flags=re.M))
    out = {prop} if prop in ALL else set()
    for f in files:
        out.update(RELEVANT.get(f, ' '.join(ALL)).split())
    return sorted(out)


def sh(cmd, **kw):
    return subprocess.run(cmd, stdout=subprocess.PIPE, stderr=subprocess.STDOUT, **kw)


def scratch_with_patch(patch):
    d = tempfile.mkdtemp(prefix='kyupy-benign-', dir='/var/tmp')
    os.rmdir(d)
    r = sh(['git', '-C', '/repo', 'worktree', 'add', '--detach', '-q', d, 'HEAD'])
    if r.returncode:
        raise SystemExit(r.stdout.decode())
    r = sh(['git', '-C', d, 'apply', patch])
    return d, r


def drop(d):
    sh(['git', '-C', '/repo', 'worktree', 'remove', '--force', d])
    shutil.rmtree(d, ignore_errors=True)


def run_checks(d, checks, tier):
    out = {}
    for pid in checks:
        env = dict(os.environ, VERIF_REPO=d, VERIF_TMP='/var/tmp', VERIF_NO_EVIDENCE='1')
        t0 = time.time()
        p = sh([os.path.join(HERE, 'check'), pid, '--tier', tier], env=env)
        txt = p.stdout.decode()
        note = [l.strip()[:300] for l in txt.split('\n') if l.strip().startswith(('monitor=', 'VIOLATION', 'INCONCLUSIVE', 'inconclusive'))][:3]
        out[pid] = {'rc': p.returncode, 'verdict': {0: 'silent', 1: 'ALARM', 2: 'inconclusive'}.get(p.returncode, 'error'), 'notes': note, 'wall_s': round(time.time() - t0, 1)}
        if p.returncode:
            print(f'    {pid}: {out[pid]["verdict"]} {note}', flush=True)
    return out


def tests_pass(d):
    env = dict(os.environ, PYTHONPATH=os.path.join(d, 'src'))
    rt = sh(['/venv/bin/python', '-m', 'pytest', '-q', '-p', 'no:cacheprovider', 'tests'], env=env, cwd=d)
    last = rt.stdout.decode().strip().split('\n')[-1]
    return (' passed' in last and 'failed' not in last and 'error' not in last), last


def add(wt, n, prop, checks, tier):
    patch = os.path.join(wt, f'benign{n}.diff')
    name = f'{prop}-b{n}'
    d, r = scratch_with_patch(patch)
    meta = {'property': prop, 'name': name, 'source': 'independent sub-agent asked for a change that keeps the property true'}
    try:
        if r.returncode:
            print(name, 'patch does not apply:', r.stdout.decode()[:300])
            return 1
        ok, last = tests_pass(d)
        meta['repo_tests_with_change'] = last
        if not ok:
            print(name, 'repository tests fail with it:', last)
            return 1
        meta['checks'] = run_checks(d, relevant_checks(patch, prop) if RELEVANT_ONLY else checks, tier)
    finally:
        drop(d)
    bad = {k: v['verdict'] for k, v in meta['checks'].items() if v['rc']}
    print(f'{name}: {len(meta["checks"])} checks, not silent: {bad}', flush=True)
    dst = os.path.join(BENIGN, name)
    os.makedirs(dst, exist_ok=True)
    shutil.copy(patch, os.path.join(dst, 'patch.diff'))
    notes = os.path.join(wt, 'BENIGN.md')
    if os.path.exists(notes):
        shutil.copy(notes, os.path.join(dst, 'BENIGN.md'))
    json.dump(meta, open(os.path.join(dst, 'meta.json'), 'w'), indent=1)
    return 0


def rerun(filters, tier, checks):
    res = []
    for name in sorted(os.listdir(BENIGN)):
        if filters and not any(f in name for f in filters):
            continue
        mp = os.path.join(BENIGN, name, 'meta.json')
        if not os.path.exists(mp):
            continue
        meta = json.load(open(mp))
        if meta.get('disposition', '').startswith('not benign'):
            continue
        d, r = scratch_with_patch(os.path.join(BENIGN, name, 'patch.diff'))
        try:
            if r.returncode:
                print(name, 'STALE: patch no longer applies')
                res.append((name, 'stale'))
                continue
            out = run_checks(d, relevant_checks(os.path.join(BENIGN, name, 'patch.diff'), meta.get('property', '')) if RELEVANT_ONLY else checks, tier)
            meta.setdefault('checks', {}).update(out)
            json.dump(meta, open(mp, 'w'), indent=1)
            bad = {k: v['verdict'] for k, v in out.items() if v['rc']}
            print(name, 'not silent:', bad, flush=True)
            res.append((name, bad))
        finally:
            drop(d)
    bad = [r for r in res if r[1]]
    print(f'{len(res)} benign changes, {len(bad)} with a check that was not silent: {bad}')
    return 1 if bad else 0


RELEVANT_ONLY = False
MODE = 'relevant'

if __name__ == '__main__':
    a = sys.argv[1:]
    RELEVANT_ONLY = '--relevant' in a or '--owner' in a or '--fragile' in a
    MODE = 'owner' if '--owner' in a else ('fragile' if '--fragile' in a else 'relevant')
    tier = a[a.index('--tier') + 1] if '--tier' in a else 'quick'
    checks = a[a.index('--checks') + 1].split(',') if '--checks' in a else ALL
    if a and a[0] == 'add':
        sys.exit(add(a[1], a[2], a[3], checks, tier))
    skip = {tier, ','.join(checks)}
    filters = [x for x in a[1:] if not x.startswith('--') and x not in skip]
    sys.exit(rerun(filters, tier, checks))
