#!/venv/bin/python
"""Confirm an independently produced breaking change and run the checks against it.

  tools/seeded.py add <worktree dir> <n> <property> [--checks C01,C06] [--tier quick] [--skip-tests]
      confirms patch<n>.diff / demo<n>.py from a sub-agent's worktree in a fresh scratch worktree of /repo
      (patch applies, the repository's 31 tests pass with it, the demo exits 1 with it and 0 without it),
      runs the named checks (default: the owning property's) against the patched tree and stores the case under
      seeded/<property>-<n>/ (patch.diff, demo.py, NOTES excerpt, meta.json).
  tools/seeded.py run [name-substring ...] [--tier quick] [--all-checks]
      re-runs the registered checks against every stored change.
Scratch worktrees live under /var/tmp and are removed afterwards.
"""
import json, os, shutil, subprocess, sys, tempfile, time

HERE = os.path.dirname(os.path.dirname(os.path.abspath(__file__)))
SEEDED = os.path.join(HERE, 'seeded')
ALL = [f'C{i:02d}' for i in range(1, 21)]


def sh(cmd, **kw):
    return subprocess.run(cmd, stdout=subprocess.PIPE, stderr=subprocess.STDOUT, **kw)


def scratch_with_patch(patch):
    d = tempfile.mkdtemp(prefix='kyupy-seed-', dir='/var/tmp')
    os.rmdir(d)
    r = sh(['git', '-C', '/repo', 'worktree', 'add', '--detach', '-q', d, 'HEAD'])
    if r.returncode:
        raise SystemExit(r.stdout.decode())
    r = sh(['git', '-C', d, 'apply', patch])
    return d, r


def drop(d):
    sh(['git', '-C', '/repo', 'worktree', 'remove', '--force', d])
    shutil.rmtree(d, ignore_errors=True)


def run_checks(d, checks, tier):
    out = {}
    for pid in checks:
        env = dict(os.environ, VERIF_REPO=d, VERIF_TMP='/var/tmp', VERIF_NO_EVIDENCE='1')
        t0 = time.time()
        p = sh([os.path.join(HERE, 'check'), pid, '--tier', tier], env=env)
        txt = p.stdout.decode()
        mon = [l.strip()[:220] for l in txt.split('\n') if l.strip().startswith('monitor=')][:2]
        out[pid] = {'rc': p.returncode, 'verdict': {0: 'missed', 1: 'caught', 2: 'inconclusive'}.get(p.returncode, 'error'), 'monitors': mon, 'wall_s': round(time.time() - t0, 1)}
        print(f'    {pid}: {out[pid]["verdict"]} {mon[:1]}', flush=True)
    return out


def add(wt, n, prop, checks, tier, skip_tests):
    patch, demo = os.path.join(wt, f'patch{n}.diff'), os.path.join(wt, f'demo{n}.py')
    name = NAME or f'{prop}-{n}'
    d, r = scratch_with_patch(patch)
    meta = {'property': prop, 'name': name, 'source': 'independent sub-agent given only the property text and a scratch worktree'}
    try:
        if r.returncode:
            print('patch does not apply:', r.stdout.decode()[:300])
            return 1
        env = dict(os.environ, PYTHONPATH=os.path.join(d, 'src'))
        rd = sh(['/venv/bin/python', demo], env=env, cwd=d)
        meta['demo_with_change_rc'] = rd.returncode
        meta['demo_output_tail'] = rd.stdout.decode()[-600:]
        if not skip_tests:
            rt = sh(['/venv/bin/python', '-m', 'pytest', '-q', '-p', 'no:cacheprovider', 'tests'], env=env, cwd=d)
            meta['repo_tests_with_change'] = rt.stdout.decode().strip().split('\n')[-1]
        sh(['git', '-C', d, 'checkout', '--', '.'])
        rc = sh(['/venv/bin/python', demo], env=env, cwd=d)
        meta['demo_without_change_rc'] = rc.returncode
        sh(['git', '-C', d, 'apply', patch])
        ok = meta['demo_with_change_rc'] == 1 and meta['demo_without_change_rc'] == 0 and (skip_tests or ' passed' in meta.get('repo_tests_with_change', '') and 'failed' not in meta.get('repo_tests_with_change', ''))
        meta['confirmed'] = bool(ok)
        print(f'{name}: demo with/without change rc={meta["demo_with_change_rc"]}/{meta["demo_without_change_rc"]} tests: {meta.get("repo_tests_with_change")} confirmed={ok}', flush=True)
        if not ok:
            print(json.dumps(meta, indent=1)[:1500])
            return 1
        meta['checks'] = run_checks(d, checks, tier)
        meta['ran'] = f'git worktree add <scratch> HEAD; git apply patch.diff; PYTHONPATH=<scratch>/src python demo.py; pytest tests; VERIF_REPO=<scratch> ./check <id> --tier {tier}'
    finally:
        drop(d)
    dst = os.path.join(SEEDED, name)
    os.makedirs(dst, exist_ok=True)
    shutil.copy(patch, os.path.join(dst, 'patch.diff'))
    shutil.copy(demo, os.path.join(dst, 'demo.py'))
    notes = os.path.join(wt, 'NOTES.md')
    if os.path.exists(notes):
        shutil.copy(notes, os.path.join(dst, 'NOTES.md'))
    json.dump(meta, open(os.path.join(dst, 'meta.json'), 'w'), indent=1)
    return 0


def rerun(filters, tier, all_checks):
    res = []
    for name in sorted(os.listdir(SEEDED)):
        if filters and not any(f in name for f in filters):
            continue
        mp = os.path.join(SEEDED, name, 'meta.json')
        if not os.path.exists(mp):
            continue
        meta = json.load(open(mp))
        d, r = scratch_with_patch(os.path.join(SEEDED, name, 'patch.diff'))
        try:
            if r.returncode:
                print(name, 'STALE: patch no longer applies')
                res.append((name, 'stale'))
                continue
            print(name, flush=True)
            checks = ALL if all_checks else sorted(set([meta['property']] + list(meta.get('checks', {}))))
            out = run_checks(d, checks, tier)
            meta.setdefault('checks', {}).update(out)
            json.dump(meta, open(mp, 'w'), indent=1)
            res.append((name, 'caught' if out[meta['property']]['rc'] == 1 else out[meta['property']]['verdict']))
        finally:
            drop(d)
    bad = [r for r in res if r[1] != 'caught']
    print(f'{len(res)} seeded changes, {len(bad)} not caught by their property\'s check: {bad}')
    return 1 if bad else 0


NAME = None

if __name__ == '__main__':
    a = sys.argv[1:]
    if '--as' in a:
        NAME = a[a.index('--as') + 1]
    tier = a[a.index('--tier') + 1] if '--tier' in a else 'quick'
    if a and a[0] == 'add':
        checks = a[a.index('--checks') + 1].split(',') if '--checks' in a else [a[3]]
        sys.exit(add(a[1], a[2], a[3], checks, tier, '--skip-tests' in a))
    filters = [x for x in a[1:] if not x.startswith('--') and x != tier]
    sys.exit(rerun(filters, tier, '--all-checks' in a))
